"""Build + process helpers shared by the driver."""
import fcntl
import hashlib
import json
import os
import shutil
import subprocess
import sys
import time

VERIF = os.path.dirname(os.path.dirname(os.path.abspath(__file__)))
REPO = os.environ.get("VERIF_REPO", "/repo")
BUILD = os.path.join(VERIF, "build")
WORK = os.path.join(VERIF, "work")
HARNESS = os.path.join(VERIF, "harness")
NCPU = os.cpu_count() or 16

SAN = ("-g -O1 -fno-omit-frame-pointer -fsanitize=address,undefined -fno-sanitize=vptr "
       "-fno-sanitize-recover=undefined -D_GLIBCXX_ASSERTIONS")
VARIANTS = {
    "asan": SAN,
    "fuzzrel": SAN + " -fsanitize=fuzzer-no-link -DNDEBUG",
    "tsan": "-g -O1 -fno-omit-frame-pointer -fsanitize=thread",
    "opt": "-O2 -DNDEBUG",
}
LINKFLAGS = {
    "asan": "-fsanitize=address,undefined",
    "fuzzrel": "-fsanitize=address,undefined",
    "tsan": "-fsanitize=thread",
    "opt": "",
}

from targets import TARGETS, CHECKS  # noqa: E402


def log(*a):
    print(*a, flush=True)


def run(cmd, **kw):
    return subprocess.run(cmd, **kw)


class BuildLock:
    def __enter__(self):
        os.makedirs(BUILD, exist_ok=True)
        self.f = open(os.path.join(BUILD, ".lock"), "w")
        fcntl.flock(self.f, fcntl.LOCK_EX)

    def __exit__(self, *a):
        fcntl.flock(self.f, fcntl.LOCK_UN)
        self.f.close()


def lib_dir(variant):
    return os.path.join(BUILD, "lib-" + variant)


def build_lib(variant):
    d = lib_dir(variant)
    if not os.path.exists(os.path.join(d, "build.ninja")):
        os.makedirs(d, exist_ok=True)
        r = run(["cmake", "-S", REPO, "-B", d, "-G", "Ninja", "-DCMAKE_CXX_COMPILER=clang++",
                 "-DCMAKE_BUILD_TYPE=None", "-DCMAKE_CXX_FLAGS=" + VARIANTS[variant],
                 "-DOVM_ENABLE_UNITTESTS=OFF", "-DOVM_ENABLE_APPLICATIONS=OFF", "-DOVM_ENABLE_EXAMPLES=OFF",
                 "-DOVM_BUILD_DOCUMENTATION=OFF"], stdout=subprocess.PIPE, stderr=subprocess.STDOUT, text=True)
        if r.returncode != 0:
            log(r.stdout)
            raise SystemExit("BUILD-ERROR: cmake configure failed for variant " + variant)
    r = run(["cmake", "--build", d], stdout=subprocess.PIPE, stderr=subprocess.STDOUT, text=True)
    if r.returncode != 0:
        log(r.stdout[-6000:])
        raise SystemExit("BUILD-ERROR: library build failed for variant " + variant)
    return os.path.join(d, "Build", "lib", "libOpenVolumeMesh.a")


def harness_dir(variant):
    return os.path.join(BUILD, "h-" + variant)


def write_ninja(variant):
    d = harness_dir(variant)
    os.makedirs(d, exist_ok=True)
    lib = os.path.join(lib_dir(variant), "Build", "lib", "libOpenVolumeMesh.a")
    inc = "-I%s/src -I%s/src -I%s" % (REPO, lib_dir(variant), HARNESS)
    out = ["cxx = clang++",
           "cxxflags = -std=gnu++17 %s %s -Wno-deprecated-declarations" % (VARIANTS[variant], inc),
           "ldflags = %s" % LINKFLAGS[variant],
           "rule cc", "  command = $cxx $cxxflags $extra -MMD -MF $out.d -c $in -o $out",
           "  depfile = $out.d", "  deps = gcc", "  description = CXX $out",
           "rule link", "  command = $cxx $ldflags $extra -o $out $in $libs", "  description = LINK $out", ""]
    seen = set()
    for name, t in TARGETS.items():
        if t["variant"] != variant:
            continue
        objs = []
        for src in t["srcs"]:
            obj = os.path.splitext(src)[0] + t.get("objsuffix", "") + ".o"
            objs.append(obj)
            if obj in seen:
                continue
            seen.add(obj)
            out.append("build %s: cc %s" % (obj, os.path.join(HARNESS, src)))
            if t.get("cflags"):
                out.append("  extra = " + t["cflags"])
        out.append("build %s: link %s %s" % (name, " ".join(objs), lib))
        out.append("  libs = " + t.get("libs", ""))
        if t.get("ldflags"):
            out.append("  extra = " + t["ldflags"])
        out.append("")
    path = os.path.join(d, "build.ninja")
    content = "\n".join(out) + "\n"
    old = open(path).read() if os.path.exists(path) else None
    if old != content:
        open(path, "w").write(content)
    return d


def build_targets(names):
    """(re)build the library variants and harness binaries needed; returns {name: path}"""
    with BuildLock():
        variants = sorted({TARGETS[n]["variant"] for n in names})
        for v in variants:
            build_lib(v)
        res = {}
        for v in variants:
            d = write_ninja(v)
            mine = [n for n in names if TARGETS[n]["variant"] == v]
            r = run(["ninja", "-C", d] + mine, stdout=subprocess.PIPE, stderr=subprocess.STDOUT, text=True)
            if r.returncode != 0:
                log(r.stdout[-8000:])
                raise SystemExit("BUILD-ERROR: harness build failed (%s)" % ",".join(mine))
            for n in mine:
                res[n] = os.path.join(d, n)
        return res


def seed_for(base, pid, i):
    h = hashlib.sha256(("%d/%s/%d" % (base, pid, i)).encode()).digest()
    return int.from_bytes(h[:7], "big") | 1


def sanitizer_env():
    e = dict(os.environ)
    e["ASAN_OPTIONS"] = "abort_on_error=0:detect_leaks=1:allocator_may_return_null=1:exitcode=77"
    e["UBSAN_OPTIONS"] = "print_stacktrace=1:halt_on_error=1:exitcode=78"
    e["TSAN_OPTIONS"] = "halt_on_error=1:exitcode=79:second_deadlock_stack=1"
    return e


