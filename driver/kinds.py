"""Check kinds other than rapidcheck programs: libFuzzer campaigns (C07)."""
import glob
import hashlib
import json
import os
import re
import shutil
import subprocess
import time

import vflib
from vflib import VERIF, WORK, NCPU, REPO, log, build_targets, seed_for, sanitizer_env

REPLAYS = os.path.join(VERIF, "replays")

DICT_OVMB = ['"VERT"', '"TOPO"', '"DIRP"', '"PROP"', '"EOF "', '"OVMB\\x0a\\x0d\\x0a\\xff"', '"\\x01\\x01\\x03"', '"s32"', '"3d"', '"b"', '"u8"', '"i64"', '"vh"', '"hfh"', '"4f"',
             '"\\xff\\xff\\xff\\xff"', '"\\x00\\x00\\x00\\x80"', '"\\xff\\xff\\xff\\x7f"', '"\\x00\\x00\\x00\\x00\\x00\\x00\\x00\\x00"']
DICT_ASCII = ['"OVM ASCII"', '"Vertices"', '"Edges"', '"Faces"', '"Polyhedra"', '"VProp"', '"EProp"', '"HEProp"', '"FProp"', '"HFProp"', '"CProp"', '"MProp"', '"int"', '"uint"',
              '"bool"', '"string"', '"double"', '"vec3d"', '"vector_double"', '"vector_vh"', '"vector_vector_hfh"', '"map_heh_int"', '"\\x0a"', '"4294967295"', '"-1"', '"3:abc"', '"\\""']


def fuzzer_of(path):
    b = os.path.basename(path)
    return "fuzz_ascii" if b.startswith("ascii-") else "fuzz_ovmb"


def replay_any(bins, path, timeout=30):
    """replays a saved C07 input with the tool it belongs to: huge-* files with t_huge, everything else with its fuzzer"""
    if os.path.basename(path).startswith("huge-"):
        hb = build_targets(["t_huge"])["t_huge"]
        try:
            r = subprocess.run([hb, "--replay", path], stdout=subprocess.PIPE, stderr=subprocess.STDOUT, timeout=120, text=True, errors="replace")
        except subprocess.TimeoutExpired:
            return True, "replay did not terminate", True
        return r.returncode != 0, r.stdout[-1500:], False
    return replay_fuzz(bins[fuzzer_of(path)], path, timeout)


def run_huge(pid, wdir, violations):
    """declared sizes that cannot be allocated: complete enumeration by t_huge (no sanitizer, RLIMIT_AS child)"""
    hb = build_targets(["t_huge"])["t_huge"]
    d = os.path.join(wdir, "huge")
    os.makedirs(d, exist_ok=True)
    out = os.path.join(d, "huge.json")
    r = subprocess.run([hb, "--out", out, "--faildir", d], stdout=subprocess.PIPE, stderr=subprocess.STDOUT, text=True, errors="replace")
    cov = {}
    try:
        j = json.load(open(out))
        cov = {"huge_value_cases": j["huge_value_cases"]}
        cov.update(j["classes"])
    except Exception as e:
        log("warning: t_huge wrote no statistics: %s" % e)
    for l in r.stdout.splitlines():
        if l.startswith("HUGE-FAIL "):
            src = l.split()[1]
            dst = os.path.join(REPLAYS, pid)
            os.makedirs(dst, exist_ok=True)
            shutil.copy(src, os.path.join(dst, os.path.basename(src)))
            violations.append((os.path.join(dst, os.path.basename(src)), "huge declared size: " + l.split(" : ", 1)[-1]))
    return cov


def replay_fuzz(binpath, path, timeout=30, unit_timeout=10):
    """returns (fails, output, timed_out)"""
    try:
        os.makedirs(WORK, exist_ok=True)
        r = subprocess.run([binpath, "-timeout=%d" % unit_timeout, "-rss_limit_mb=4096", "-artifact_prefix=%s/replay-" % WORK, path], stdout=subprocess.PIPE, stderr=subprocess.STDOUT, env=sanitizer_env(), timeout=timeout, text=True, errors="replace")
    except subprocess.TimeoutExpired:
        return True, "replay did not terminate within %ds" % timeout, True
    hung = "libFuzzer: timeout" in r.stdout
    return r.returncode != 0, r.stdout[-3000:], hung


def make_seeds(d, which):
    os.makedirs(d, exist_ok=True)
    n = 0
    pat = "*.ovmb" if which == "fuzz_ovmb" else "*.ovm"
    for f in sorted(glob.glob(os.path.join(REPO, "src", "Unittests", "TestFiles", pat))):
        data = open(f, "rb").read()
        if len(data) > 4096:
            continue  # large seeds only slow the campaign down
        for sel in (0x00, 0x08, 0x11, 0x1a):
            open(os.path.join(d, "seed-%d-%02x" % (n, sel)), "wb").write(bytes([sel]) + data)
        n += 1
    # a few structure-aware seeds (mode B: selector bit 7)
    for k in range(12):
        open(os.path.join(d, "seedB-%d" % k), "wb").write(bytes([0x80 | (k % 3) | (8 if k & 4 else 0) | 16]) + bytes([(k * 37 + i * 11) % 256 for i in range(24)]))
    return n


def run(pid, tier, cfg):
    from engine import write_evidence, base_seed
    t0 = time.time()
    tcfg = dict(cfg[tier])
    if os.environ.get("VF_FUZZ_SECONDS"):
        tcfg["seconds"] = int(os.environ["VF_FUZZ_SECONDS"])
    fuzzers = cfg["fuzzers"]
    bins = build_targets(fuzzers)
    wdir = os.path.join(WORK, pid)
    shutil.rmtree(wdir, ignore_errors=True)
    os.makedirs(wdir)
    violations = []
    # regression tier: saved inputs must not fail any more
    nreg = 0
    for f in sorted(glob.glob(os.path.join(REPLAYS, pid, "*"))):
        nreg += 1
        fails, out, _ = replay_any(bins, f)
        if fails:
            violations.append((f, "regression input fails: " + (out.strip().splitlines()[-1] if out.strip() else "")))
    huge_cov = run_huge(pid, wdir, violations)
    procs = []
    per = max(1, min(tcfg["workers"], NCPU) // len(fuzzers))
    corpora = tcfg.get("corpora", ["seeded"])
    for fz in fuzzers:
        dict_path = os.path.join(wdir, fz + ".dict")
        open(dict_path, "w").write("\n".join(DICT_OVMB if fz == "fuzz_ovmb" else DICT_ASCII) + "\n")
        seeds = os.path.join(wdir, fz + "-seeds")
        make_seeds(seeds, fz)
        for i in range(per):
            d = os.path.join(wdir, "%s-w%d" % (fz, i))
            os.makedirs(os.path.join(d, "corpus"))
            os.makedirs(os.path.join(d, "art"))
            mode = corpora[i % len(corpora)]
            env = sanitizer_env()
            env["VF_FUZZ_STATS"] = os.path.join(d, "stats.json")
            cmd = [bins[fz], "-max_total_time=%d" % tcfg["seconds"], "-seed=%d" % (seed_for(base_seed(), pid + fz, i) % 2147483647), "-timeout=10", "-rss_limit_mb=4096", "-max_len=65536",
                   "-len_control=20", "-print_final_stats=1", "-artifact_prefix=" + os.path.join(d, "art") + "/", "-dict=" + dict_path, os.path.join(d, "corpus")]
            if mode == "seeded":
                cmd.append(seeds)
            lf = open(os.path.join(d, "log.txt"), "w")
            procs.append((fz, i, d, mode, subprocess.Popen(cmd, stdout=lf, stderr=subprocess.STDOUT, env=env), lf))
    total = {"execs": 0}
    counters = {}
    distinct = 0
    samples = []
    candidates = []
    for fz, i, d, mode, p, lf in procs:
        try:
            rc = p.wait(timeout=tcfg["seconds"] + 300)
        except subprocess.TimeoutExpired:
            p.kill()
            p.wait()
            rc = None
        lf.close()
        logtxt = open(os.path.join(d, "log.txt"), errors="replace").read()
        m = re.search(r"stat::number_of_executed_units:\s*(\d+)", logtxt)
        sp = os.path.join(d, "stats.json")
        if os.path.exists(sp):
            try:
                s = json.load(open(sp))
                for k, v in s.items():
                    if isinstance(v, int):
                        counters[fz + ":" + k] = counters.get(fz + ":" + k, 0) + v
                distinct = max(distinct, s.get("distinct_nontrivial", 0))
                for k in ("sample_success", "sample_rejected"):
                    if s.get(k) and len(samples) < 6:
                        samples.append({"fuzzer": fz, "corpus": mode, "kind": k, "input_head": s[k]})
                if not m:
                    total["execs"] += s.get("execs", 0)
            except Exception:
                pass
        if m:
            total["execs"] += int(m.group(1))
        counters["%s:workers_%s_corpus" % (fz, mode)] = counters.get("%s:workers_%s_corpus" % (fz, mode), 0) + 1
        for a in sorted(glob.glob(os.path.join(d, "art", "*"))):
            b = os.path.basename(a)
            if b.startswith("crash-") or b.startswith("leak-"):
                candidates.append((fz, a, "crash"))
            elif b.startswith("timeout-"):
                candidates.append((fz, a, "timeout"))
            else:
                counters[fz + ":ignored_artifacts(oom/slow-unit)"] = counters.get(fz + ":ignored_artifacts(oom/slow-unit)", 0) + 1
    seen = set()
    nonrepro = 0
    for fz, a, kind in candidates:
        data = open(a, "rb").read()
        h = hashlib.sha1(data).hexdigest()[:12]
        ok = True
        last = ""
        if kind == "timeout" and "hang (replay does not terminate)" in seen:
            continue  # one confirmed hang is reported; confirming each further timeout artifact costs minutes
        for _ in range(3 if kind != "timeout" else 2):
            # a hang must survive a replay with a generous limit: slow but terminating reads (work proportional to a
            # declared count) are load noise, not violations
            fails, out, timed_out = replay_fuzz(bins[fz], a, timeout=30) if kind != "timeout" else replay_fuzz(bins[fz], a, timeout=200, unit_timeout=150)
            last = out
            if not fails or (kind == "timeout" and not timed_out):
                ok = False
                break
        if not ok:
            nonrepro += 1
            continue
        if kind == "timeout" and len(data) >= 65536:
            nonrepro += 1
            continue
        # one stored input per distinct failure site (root cause proxy: the first library frame / message)
        site = ""
        for l in last.splitlines():
            if "C07-POSTCONDITION" in l or "SUMMARY:" in l or "Assertion" in l:
                site = l.strip()[:200]
                break
        if kind == "timeout":
            site = "hang (replay does not terminate)"
        if site in seen:
            continue
        seen.add(site)
        dst = os.path.join(REPLAYS, pid)
        os.makedirs(dst, exist_ok=True)
        name = ("ascii-" if fz == "fuzz_ascii" else "ovmb-") + kind + "-" + h
        shutil.copy(a, os.path.join(dst, name))
        violations.append((os.path.join(dst, name), site or kind))
    cov = {
        "evaluations": total["execs"],
        "distinct_nontrivial": distinct,
        "rule": cfg["rule"],
        "samples": samples[:6] or [{"note": "no sample recorded"}],
        "classes": dict(sorted(counters.items())),
        "regression_inputs_run": nreg,
        "nonreproducible_candidates": nonrepro,
        "campaign": "%d processes x %d s per fuzzer, corpora %s" % (per, tcfg["seconds"], ",".join(corpora)),
    }
    cov["classes"].update({k: v for k, v in huge_cov.items()})
    cov["evaluations"] += huge_cov.get("huge_value_cases", 0)
    write_evidence(pid, tier, cfg, cov, time.time() - t0, len(violations))
    for path, msg in violations:
        log("VIOLATION property=%s replay=%s" % (pid, path))
        log("  " + msg)
    log("%s %s: %d executions, %d distinct non-trivial (largest worker), %d violations, %.0fs" % (pid, tier, cov["evaluations"], distinct, len(violations), time.time() - t0))
    return 1 if violations else 0
