"""Tables: harness binaries (TARGETS) and per-property check configuration (CHECKS)."""

RC = "-lrapidcheck"

TARGETS = {
    "t_kernel": dict(variant="asan", srcs=["t_kernel.cc"], libs=RC),
    "t_queries": dict(variant="asan", srcs=["t_queries.cc"], libs=RC),
    "t_io": dict(variant="asan", srcs=["t_io.cc"], libs=RC),
    "t_ascii": dict(variant="asan", srcs=["t_ascii.cc", "ascii_shim_poly.cc", "ascii_shim_tet.cc", "ascii_shim_hex.cc"], libs=RC),
    "t_faults": dict(variant="fuzzrel", srcs=["t_faults.cc"], libs=RC),
    "t_tet": dict(variant="asan", srcs=["t_tet.cc"], libs=RC),
    "t_hex": dict(variant="asan", srcs=["t_hex.cc"], libs=RC),
    "t_registry": dict(variant="asan", srcs=["t_registry.cc"], libs=RC),
    "t_copy": dict(variant="asan", srcs=["t_copy.cc"], libs=RC),
    "t_vector": dict(variant="asan", srcs=["t_vector.cc"], libs=RC + " -lpthread"),
    "t_threads": dict(variant="tsan", srcs=["t_threads.cc"], libs=RC + " -lpthread"),
    "fuzz_ovmb": dict(variant="fuzzrel", srcs=["fuzz_ovmb.cc"], libs="", ldflags="-fsanitize=fuzzer"),
    "fuzz_ascii": dict(variant="fuzzrel", srcs=["fuzz_ascii.cc", "ascii_shim_poly.cc", "ascii_shim_tet.cc", "ascii_shim_hex.cc"], libs="", ldflags="-fsanitize=fuzzer"),
    # the same program interpreters driven by libFuzzer (coverage-guided) instead of rapidcheck
    "fuzz_kernel": dict(variant="fuzzrel", srcs=["t_kernel.cc"], objsuffix="_fz", cflags="-DVF_FUZZ_MAIN", libs=RC, ldflags="-fsanitize=fuzzer"),
    "fuzz_queries": dict(variant="fuzzrel", srcs=["t_queries.cc"], objsuffix="_fz", cflags="-DVF_FUZZ_MAIN", libs=RC, ldflags="-fsanitize=fuzzer"),
    "fuzz_tet": dict(variant="fuzzrel", srcs=["t_tet.cc"], objsuffix="_fz", cflags="-DVF_FUZZ_MAIN", libs=RC, ldflags="-fsanitize=fuzzer"),
    "fuzz_hex": dict(variant="fuzzrel", srcs=["t_hex.cc"], objsuffix="_fz", cflags="-DVF_FUZZ_MAIN", libs=RC, ldflags="-fsanitize=fuzzer"),
    "fuzz_copy": dict(variant="fuzzrel", srcs=["t_copy.cc"], objsuffix="_fz", cflags="-DVF_FUZZ_MAIN", libs=RC, ldflags="-fsanitize=fuzzer"),
    "fuzz_registry": dict(variant="fuzzrel", srcs=["t_registry.cc"], objsuffix="_fz", cflags="-DVF_FUZZ_MAIN", libs=RC, ldflags="-fsanitize=fuzzer"),
    "t_huge": dict(variant="opt", srcs=["t_huge.cc", "ascii_shim_poly.cc", "ascii_shim_tet.cc"], libs=""),
    "t_handles": dict(variant="opt", srcs=["t_handles.cc"], libs="-lpthread"),
}

# kind "rc_program": rapidcheck over op programs; workers run `<bin> --run ID`
CHECKS = {
    "C01": dict(
        kind="rc_program", target="t_kernel", level="exploration",
        quick=dict(workers=16, max_success=1200, max_size=100, len_scale=0.6, timeout=600),
        thorough=dict(workers=16, max_success=15000, max_size=100, len_scale=2.0, timeout=3600),
        rule=("cases = random programs over the polyhedral kernel API (adds incl. macro cell builders, set_*, "
              "delete_*, swap_*, collect_garbage, clear, bottom-up and deletion-mode toggles); after EVERY primitive "
              "all enabled upward queries are compared with a brute-force scan of the stored definitions. "
              "non-trivial = history contains >=1 cell and >=1 deletion/swap/set_*/re-enable after which >=1 upward "
              "query has a non-empty answer; distinct = distinct program hash"),
        assumptions=["UBSan vptr check disabled (fires on every property creation, unrelated)",
                     "domain: no halfface used by two live cells; handles passed are live and in range"],
        technique="rapidcheck stateful history generation + brute-force inverse-relation oracle after every step",
        level_text=("Random valid API histories (all deletion modes, bottom-up toggles, non-manifold and degenerate "
                    "meshes) with every enabled upward query compared against a scan of the definitions after every "
                    "primitive step, under ASan/UBSan with asserts on; failures shrink to a short op list."),
        level_note="Bounded by program length (<=60 ops quick, <=200 thorough) and <=40 vertices; never proves absence.",
    ),
    "C02": dict(
        kind="rc_program", target="t_kernel", level="exploration",
        quick=dict(workers=16, max_success=8000, max_size=100, len_scale=0.6, timeout=600),
        thorough=dict(workers=16, max_success=100000, max_size=100, len_scale=2.0, timeout=3600),
        rule=("cases = random programs as for C01 (all four deletion modes and all bottom-up subsets toggled "
              "mid-history); after every primitive the whole mesh (counts, logical counts, is_deleted flags, "
              "needs_garbage_collection, genus, every live definition) is compared with a uid-addressed reference "
              "model whose deletion rule is 'exactly the upward closure'. non-trivial = a deletion whose closure has "
              ">=2 entities and leaves a survivor of a higher kind; distinct = distinct program hash"),
        assumptions=["renumbering is predicted from the documented rule (identity / shift / swap-with-last)"],
        technique="rapidcheck stateful history generation + uid-addressed reference model (upward-closure deletion)",
        level_text=("Model-based test: the same history is applied to the mesh and to an independent uid-addressed "
                    "reference model; the full observable state is compared after every primitive in all four "
                    "deletion modes with arbitrary bottom-up subsets."),
        level_note="Bounded by program length and mesh size; the renumbering rule is the documented one.",
    ),
    "C03": dict(
        kind="rc_program", target="t_kernel", level="exploration", also=dict(target="t_tet", workers=3, quick_max_success=400, thorough_max_success=6000, len_scale=0.4),
        quick=dict(workers=16, max_success=10000, max_size=100, len_scale=0.7, timeout=600),
        thorough=dict(workers=16, max_success=100000, max_size=100, len_scale=2.0, timeout=3600),
        rule=("cases = random kernel histories (as C01/C02) interleaved with creation of shared/private/persistent "
              "properties of int/bool/double/string/Vec3d on all seven entity kinds, random writes and handle drops; "
              "after every primitive every live property must have one element per entity slot and every surviving "
              "entity (per side for half-entities) its value from a uid-keyed value model, new entities the default; "
              "vertex positions likewise. non-trivial = a renumbering op (swap, immediate deletion, garbage collection) "
              "executed while >=2 live properties of different types incl. bool with >=1 written value exist on an "
              "affected kind; distinct = distinct program hash"),
        assumptions=["cases whose topology does not match the reference model are discarded (counted as discarded_prereq_*)"],
        technique="rapidcheck stateful histories + uid-keyed property value model checked after every step",
        level_text=("Model-based: property values are tracked per entity identity (uid) independent of handles and "
                    "compared after every step of random histories in all deletion modes; covers bool specialisation, "
                    "half-entity sides, defaults of new slots, clear(), positions."),
        level_note="3 of the 16 workers run the tetrahedral harness (t_tet) with id C03: cell and vertex property values must follow their entities through collapse_edge. One in five generated properties is an attribute-class view instead of a bare property: ColorAttrib<Vec4f> (all six kinds), StatusAttrib tagged/selected/hidden bits (all six kinds), InterfaceAttrib (vertex/edge/face), TexCoordAttrib<Vec2f>, written and read through the attribute's accessors (also in the C04, C12 and C17 runs).",
    ),
    "C04": dict(
        kind="rc_program", target="t_kernel", level="exploration",
        quick=dict(workers=16, max_success=8000, max_size=100, len_scale=0.7, timeout=600),
        thorough=dict(workers=16, max_success=80000, max_size=100, len_scale=2.0, timeout=3600),
        rule=("cases = random histories with deferred deletions and StatusAttrib deleted-marks, ending in / containing "
              "collect_garbage(), enable_deferred_deletion(false) and StatusAttrib::garbage_collection (both overloads, "
              "manifoldness flag on/off, random live/pending/invalid handles handed in for tracking), fast on/off, any "
              "bottom-up subset, live properties. Oracle: afterwards no pending deletions, mesh == logical model "
              "(closure of marks, manifoldness removals) under the predicted renumbering, property values by uid, "
              "tracked handles == image of their entity or invalid, incidences consistent. non-trivial = a collection "
              "with pending work in >=2 entity kinds not at the array end (and, with tracking, a tracked survivor and a "
              "tracked removed handle); distinct = distinct program hash"),
        assumptions=["the reference model applies deletions immediately, so equality with it is the differential "
                     "'same deletions performed immediately'"],
        technique="rapidcheck stateful histories + reference model of logical mesh, tracked-handle oracle",
        level_text=("Model-based test of all three garbage-collection entry points against the logical (not-deleted) "
                    "mesh incl. handle tracking and the manifoldness option."),
        level_note="Bounded by program length and mesh size.",
    ),
    "C12": dict(
        kind="rc_program", target="t_kernel", level="exploration",
        quick=dict(workers=16, max_success=1200, max_size=100, len_scale=0.6, timeout=600),
        thorough=dict(workers=16, max_success=15000, max_size=100, len_scale=2.0, timeout=3600),
        rule=("cases = random histories run on two meshes: a twin with all bottom-up incidences always enabled and the "
              "mesh under test whose three incidence kinds are toggled at arbitrary points; both are compared with the "
              "same reference model (definitions, counts, flags, property values) after every primitive, the C01 "
              "brute-force oracle runs on the enabled kinds (hence right after every re-enable), and every circulator "
              "needing a disabled kind must be immediately invalid. A failure also shown by the twin is discarded. "
              "non-trivial = a deletion/swap/garbage collection executed while a kind is disabled, followed by "
              "re-enabling that kind; distinct = distinct program hash"),
        assumptions=["upward queries / lookups are only issued while their kind is enabled"],
        technique="rapidcheck differential (all-enabled twin vs toggled mesh) + model + brute-force incidence oracle",
        level_text=("Differential/model-based test over all 8 bottom-up subsets toggled mid-history in all deletion "
                    "modes under ASan/UBSan with asserts on."),
        level_note="Bounded by program length and mesh size.",
    ),
    "C17": dict(
        kind="rc_program", target="t_kernel", level="exploration",
        quick=dict(workers=16, max_success=4000, max_size=100, len_scale=0.6, timeout=600),
        thorough=dict(workers=16, max_success=40000, max_size=100, len_scale=2.0, timeout=3600),
        rule=("cases = random histories; every swap_*_indices op is executed three times: the handle-exact raw snapshot "
              "(is_deleted flags, live definitions, base incidence lists, raw arrays of all live properties incl. "
              "deleted slots, positions) after the first swap must equal the snapshot before with the two handles "
              "(and their half-entities side by side) exchanged everywhere, the second swap must restore the exact "
              "original snapshot (ordered), swap(h,h) is a no-op. non-trivial = a swap of two different handles; "
              "distinct = distinct program hash"),
        assumptions=["stored definitions of deleted-not-collected entities are not observable and not compared"],
        technique="rapidcheck histories + handle-exact metamorphic relation (relabeled snapshot, involution)",
        level_text=("Metamorphic test: swap == relabeling of the complete observable state; swap twice == identity; "
                    "pairs include adjacent, shared, first/last, deleted slots; any bottom-up subset."),
        level_note="Bounded by program length and mesh size.",
    ),
    "C05": dict(
        kind="rc_program", target="t_queries", level="exploration",
        quick=dict(workers=16, max_success=500, max_size=100, len_scale=0.5, timeout=900),
        thorough=dict(workers=16, max_success=6000, max_size=100, len_scale=1.5, timeout=3600),
        rule=("cases = random kernel histories (incl. empty meshes and deferred-deleted entities anywhere in the arrays); "
              "at generated points and at the end EVERY entity iterator (begin/end, valid()-loop, range-for, backward "
              "from end, forward again) and EVERY one of the 26 kernel circulators on EVERY live centre with max_laps "
              "1,2,3 is compared with the brute-force incident (multi)set / sequence: L laps of the same sequence, "
              "lap() counter, end == begin advanced L*|S|, generated ++/-- walk (never before begin), empty centre => "
              "immediately invalid. non-trivial = a case with a centre of |S|>=2, L>=2 and a walk stepping backward "
              "across a lap boundary; distinct = distinct program hash"),
        assumptions=[
                     "walks never step before begin; after reaching the end only one backward step is checked"],
        technique="rapidcheck histories + exhaustive per-state sweep of all iterators/circulators against a brute-force model of the iteration protocol",
        level_text="Every iterator/circulator class x every centre x max_laps 1..3 x generated walks on thousands of generated states.",
        level_note="Tetrahedral/hexahedral circulators are covered by the C15/C16 targets.",
    ),
    "C08": dict(
        kind="rc_program", pre="handles_exhaustive", target="t_queries", level="exploration",
        quick=dict(workers=16, max_success=2500, max_size=100, len_scale=0.6, timeout=900),
        thorough=dict(workers=16, max_success=30000, max_size=100, len_scale=2.0, timeout=3600),
        rule=("part 1: the handle conversions (edge<->halfedge, face<->halfface, sub-index, opposite, static and member "
              "forms) are checked for EVERY index in [0, 2^30) (complete enumeration, exhaustive). part 2: random "
              "histories; at generated points every live edge/face is checked: opposite halfedge swaps endpoints, "
              "opposite halfface = reversed opposites, double opposite = identity, faces built from vertices or accepted "
              "with topology check are closed loops, both sides enumerate the same cycle in opposite directions, "
              "next/prev are inverse steps. non-trivial = a case with >=1 checked closed face of valence 3/4; "
              "distinct = distinct program hash"),
        assumptions=["faces using one halfedge twice are skipped for next/prev (ambiguous), counted"],
        technique="complete enumeration of 2^30 handle indices + rapidcheck histories with per-state mirror-image oracle",
        level_text="Exhaustive over the index space for the pure handle algebra; generated states for the stored half-entities (valence 1..8, loops, 2-gons).",
        level_note="Indices in [2^30, 2^31) would overflow 2*idx in the library's int arithmetic and are outside the stated quantifier.",
    ),
    "C09": dict(
        kind="rc_program", target="t_queries", level="exploration",
        quick=dict(workers=16, max_success=1500, max_size=100, len_scale=0.5, timeout=900),
        thorough=dict(workers=16, max_success=20000, max_size=100, len_scale=1.5, timeout=3600),
        rule=("cases = random histories without set_* (rings of 3-6 tets around an edge inserted in generated order, open "
              "fans, cones glued on boundary faces, template cells, deletions of every kind, GC, swaps, bottom-up "
              "toggles); every edge classified by brute force as a single fan must report its halffaces in rotational "
              "order (successor = opposite of the in-cell neighbour, boundary halfface last, opposite halfedge mirrored, "
              "halfedge_cells/edge_cells in that order); in every closed cell adjacent_halfface_in_cell returns the "
              "unique other halfface (either halfedge orientation when unambiguous) and is involutive. non-trivial = a "
              "case with a single-fan edge of valence >=3 and >=1 adjacency check; distinct = distinct program hash"),
        assumptions=["edges that are not a single fan are skipped and counted"],
        technique="rapidcheck histories + brute-force fan classification and successor relation",
        level_text="Validity predicate (not a fixed answer) for the rotational order on every single-fan edge of generated non-manifold and manifold states.",
        level_note="Hex sheet adjacency is covered by the C16 target.",
    ),
    "C10": dict(
        kind="rc_program", target="t_queries", level="exploration",
        quick=dict(workers=16, max_success=400, max_size=100, len_scale=0.4, timeout=900),
        thorough=dict(workers=16, max_success=5000, max_size=100, len_scale=1.0, timeout=3600),
        rule=("cases = random histories with simple faces; per sampled state: find_halfedge on ALL ordered vertex pairs, "
              "find_halfface/find_halfface_extensive on every rotation / reversal / one-vertex-replaced / prefix / "
              "cross-face tuple of every halfface, find_halfface(halfedges) on pairs, get_halfface_vertices (3 forms, "
              "every start), is_incident on all (face, edge), n_vertices_in_cell, find_halfedge_in_cell on all pairs and "
              "find_halfface_in_cell on derived triples of every closed cell; each answer must satisfy the validity "
              "predicate iff a brute-force search finds a qualifying entity. non-trivial = a case with >20 positive and "
              ">20 negative lookups; distinct = distinct program hash"),
        assumptions=["vertex-tuple lookups across parallel duplicate edges are excluded (ambiguous which edge is meant), counted",
                     "states with non-simple faces are skipped (consecutive is ambiguous), counted"],
        technique="rapidcheck histories + exhaustive/derived argument tuples against brute-force validity predicates",
        level_text="Soundness and completeness of every lookup on generated states against scans of the definitions.",
        level_note="Bounded mesh size.",
    ),
    "C11": dict(
        kind="rc_program", target="t_queries", level="exploration",
        also=[dict(target="t_tet", workers=2, quick_max_success=400, thorough_max_success=6000, len_scale=0.4),
              dict(target="t_hex", workers=2, quick_max_success=300, thorough_max_success=5000, len_scale=0.4)],
        quick=dict(workers=16, max_success=2000, max_size=100, len_scale=0.6, timeout=900),
        thorough=dict(workers=16, max_success=40000, max_size=100, len_scale=2.0, timeout=3600),
        rule=("cases = random histories containing add_edge with/without allowDuplicates on existing / reversed / "
              "deferred-deleted pairs (with and without vertex bottom-up), and topology-checked add_face / add_cell on "
              "valid loops / closed surfaces and on perturbations (empty, one dropped/doubled/replaced/flipped, rotated, "
              "re-oriented, permuted); acceptance must equal the harness predicate; a rejected/deduplicated call must "
              "leave the handle-exact raw snapshot (flags, definitions, incidences, properties, positions) unchanged, an "
              "accepted one must append exactly the given entity and change nothing else. non-trivial = a case with >=1 "
              "rejected/deduplicated and >=1 accepted checked call; distinct = distinct program hash"),
        assumptions=["only free halffaces are offered to add_cell (domain: no halfface in two live cells)"],
        technique="rapidcheck histories + acceptance predicate + handle-exact before/after snapshots",
        level_text="Validation logic of the polyhedral kernel against an independent closedness predicate, with full-state unchanged checks.",
        level_note="Tetrahedral / hexahedral kernels: 2 workers each of the C15 / C16 harnesses (t_tet, t_hex) run under this id - wrong-valence faces and cells through every add_face / add_cell overload (vertex lists, halfedge loops of length 2/4/5, halfface lists of wrong length), permuted / flipped / doubled / foreign halfface lists with topology check: rejected calls leave the mesh unchanged, valid permuted lists are accepted.",
    ),
    "C06": dict(
        kind="rc_program", target="t_io", level="exploration",
        also=dict(target="t_ascii", workers=4, quick_max_success=6000, thorough_max_success=60000, len_scale=0.6),
        quick=dict(workers=16, max_success=600, max_size=100, len_scale=0.6, timeout=900),
        thorough=dict(workers=16, max_success=2000, max_size=100, len_scale=1.5, timeout=3600),
        rule=("cases = generated polyhedral (random histories after garbage collection, non-manifold allowed), tetrahedral (one in five "
              "with the single-precision Vec3f kernel, i.e. float vertex encoding, also read into a double precision mesh) and "
              "hexahedral meshes with up to 10 persistent properties over all 30 registered OVMB value types (special "
              "floats, NaN payloads, empty/long/binary strings, invalid handles) on all seven entity kinds, random "
              "names and defaults, directed index-width boundary sizes (254-257, 65534-65537 vertices; 127-129, "
              "32767-32769 edges/faces). Oracles: (1) ovmb_read(ovmb_write(M)) == M handle for handle incl. bit-exact "
              "values and defaults, both ReadOptions; (2) an independent decoder written from ovmb.ksy decodes the "
              "writer's bytes to M; (3) re-encodings permitted by the description (1-4 spans per chunk kind, wider "
              "ints, float vertices, non-zero handle offsets, variable valence, optional unknown chunks, interleaved "
              "and split PROP chunks, extra zero padding) read to M; (4) topo_type detection; (5) a mesh with pending "
              "deletions is refused or written as its logical content. OVM-ASCII part (4 of the 16 workers, target "
              "t_ascii; same mesh generators, persistent properties over all 28 value types of the ASCII typeName list "
              "incl. extreme finite floats, binary strings with line breaks / '#' / NUL, invalid handles, nested "
              "vectors, maps, names with blanks, '#' and inner quotes): (A1) an independent reader of the documented "
              "text format (C strtol/strtod based, no library code) recovers counts, definitions, coordinates to 6 "
              "significant digits and every property from the written text; (A2) readStream(writeStream(M)) == M to "
              "printed precision for both topology_check / bottom-up values; (A3) a second round trip leaves the content "
              "unchanged (byte-identical, or identical content when only the order of property blocks differs - that "
              "order comes from a pointer-ordered set); (A4) writeFile/readFile give the same result and "
              "isTetrahedralMesh/isHexahedralMesh detect all-tet / all-hex files and reject files with no cell or a cell "
              "of another valence; (A5) tet/hex files read into PolyhedralMesh and all-tet polyhedral files into "
              "TetrahedralMesh; (A6) pending deletions are refused. non-trivial = >=1 cell and >=2 persistent "
              "properties on different kinds incl. a half-entity kind and a bool/string property, or a directed "
              "boundary size; distinct = distinct program hash"),
        assumptions=["the reference codec implements extra/ovmb-kaitai/ovmb.ksy + binary_file_format.docu, no library code",
                     "each OVMB write allocates a 100 MB buffer (about 30 ms), which bounds the case count"],
        technique="rapidcheck generated meshes/properties + round-trip, independent reference decoders (OVMB from ovmb.ksy, ASCII from the format docu), metamorphic reference encoder",
        level_text="Round-trip, differential (independent codec) and metamorphic (all permitted encodings) testing of the binary format.",
        level_note="Index widths beyond 65537 entities are not generated. ASCII: property names are limited to what the quoted one-line header can carry (no line break, not starting or ending with a double quote); non-finite floating point values and white-space char values are listed known findings and excluded by construction (counted).",
    ),
    "C18": dict(
        kind="rc_program", target="t_faults", level="fault_enumeration",
        quick=dict(workers=16, max_success=12, max_size=60, len_scale=0.5, timeout=900),
        thorough=dict(workers=16, max_success=150, max_size=100, len_scale=1.0, timeout=3600),
        rule=("per generated valid OVMB file (written by the library from generated polyhedral / tetrahedral meshes with "
              "persistent properties; sizes about 100 B - 20 KB) the faults are ENUMERATED: every truncation length "
              "0..size-1 (sub-sampled above 6 KB) plus every chunk boundary; every byte of the file header, every chunk "
              "header, sub-header and padding x {0,1,2,0x7f,0x80,0xfe,0xff,orig+1,orig-1}; every chunk dropped / "
              "duplicated / exchanged with its successor, EOF chunk moved to the front; every input-stream failure "
              "position (short read and exception) and output-stream failure positions while saving (every chunk and "
              "payload start, file start/end, every 211th byte: each save costs a 100 MB buffer). A strict "
              "reference decoder written from ovmb.ksy classifies each mutated file: rejected for a listed reason => "
              "ovmb_read must not return Ok; still valid => must read to the decoded mesh; otherwise unjudged (counted). "
              "evaluations = generated files; fault evaluations are in classes.fault_evaluations. non-trivial = a file "
              "with >=1 cell and >=1 property that had faults injected inside / right after a TOPO or PROP chunk; "
              "distinct = distinct program hash"),
        assumptions=["input streams are seekable (the API sizes the file with seekg/tellg); the fault-injecting streambuf seeks correctly",
                     "NDEBUG build (asserts off) with ASan/UBSan/_GLIBCXX_ASSERTIONS: debug-only asserts on corrupt input are not counted"],
        technique="fault enumeration over generated files (truncation, byte substitution, chunk edits, stream failures) judged by an independent reference decoder",
        level_text="Exhaustive enumeration of single faults per generated file; the verdict 'inconsistent' comes from an independent strict decoder, not from the library.",
        level_note="Single faults only; multi-byte corruptions are left to the C07 fuzzers.",
    ),
    "C15": dict(
        kind="rc_program", target="t_tet", level="exploration",
        quick=dict(workers=16, max_success=400, max_size=100, len_scale=0.4, timeout=900),
        thorough=dict(workers=16, max_success=6000, max_size=100, len_scale=1.0, timeout=3600),
        rule=("cases = random tetrahedral-mesh histories: add_cell(4 vertices) / add_cell(vector) with and without topology "
              "check, tets glued on boundary halffaces, rings / open fans of 3-5 tets around an edge in generated order, "
              "vertex stars, rejected adds (wrong valence, occupied halfface), deletions of every kind, garbage "
              "collection, collapse_edge on edges satisfying the link condition (computed on the full simplicial "
              "complex), all four deletion modes. After every op: shape invariants; for EVERY cell x halfface x "
              "halfedge/vertex get_cell_vertices (4 forms), opposite vertex/halfface inverse, tet vertex iterator "
              "(incl. lap protocol), TetTopology/TriangleTopology for every (halfface,start) choice and all 12+32 "
              "labels, get_label inverse; collapse: oriented-cell multiset in vertex identities == former cells "
              "without both endpoints with a->b, returned handle designates b. non-trivial = a case ending with >=3 "
              "live tets or containing a collapse; distinct = distinct program hash"),
        assumptions=["vertex identity is tracked through unique positions (C03 is checked separately)",
                     "adds onto an occupied halfface are only issued with topology check (domain: one cell per halfface)", "gated on the C01 oracle"],
        technique="rapidcheck tet histories + oriented simplicial-complex model + exhaustive per-cell label sweep",
        level_text="Model-based (oriented tets as vertex-identity tuples) and exhaustive per-state query sweep for the tetrahedral kernel.",
        level_note="split_edge/split_face are protected members and not covered.",
    ),
    "C16": dict(
        kind="rc_program", target="t_hex", level="exploration",
        quick=dict(workers=16, max_success=300, max_size=100, len_scale=0.4, timeout=900),
        thorough=dict(workers=16, max_success=5000, max_size=100, len_scale=1.0, timeout=3600),
        rule=("cases = random polycubes on a 4x3x3 lattice, each cube inserted through add_cell(8 vertices) in a generated "
              "one of the 24 cube rotations (so shared faces pre-exist in other rotations), cells deleted and re-added "
              "through add_cell(generated permutation of the six halffaces, check), invalid halfface lists (flipped / "
              "doubled / foreign / dropped), wrong-valence adds, deletions of every kind, garbage collection, all four "
              "deletion modes. After every op for EVERY cell: shape invariants, halffaces 2k/2k+1 disjoint, cyclic order "
              "[2,4,3,5] around the first halfface and the orthogonal_orientation handedness rule around all six, "
              "orientation / opposite_halfface_handle_in_cell / x,y,z accessors / get_oriented_halfface, "
              "orthogonal_orientation == cross product (all 36 pairs), hex_vertices pattern (+ lap protocol), "
              "cell_sheet_cells for all 6 directions, halfface_sheet_halffaces and adjacent_halfface_on_sheet against "
              "the brute-force neighbour relation. non-trivial = a case ending with >=3 live cells in which an insertion "
              "re-used existing faces or a permuted list was accepted; distinct = distinct program hash"),
        assumptions=["vertex identity through lattice positions", "gated on the C01 oracle"],
        technique="rapidcheck polycube histories + exhaustive per-cell convention / navigation sweep against brute-force adjacency",
        level_text="Generated hexahedral states with every cell checked against the layout convention derived from brute-force in-cell adjacency.",
        level_note="Lattice 4x3x3 (36 cells, 80 vertices).",
    ),
    "C14": dict(
        kind="rc_program", target="t_registry", level="exploration",
        quick=dict(workers=16, max_success=6000, max_size=100, len_scale=0.8, timeout=900),
        thorough=dict(workers=16, max_success=60000, max_size=100, len_scale=2.0, timeout=3600),
        rule=("cases = random sequences of request / create_shared / create_persistent / create_private / get_property / "
              "set_shared / set_persistent / set_name, handle copies, moves and drops (8 handle slots), clear_props<kind>, "
              "clear_all_props, clear(), mesh copy-construction, assignment and destruction (2 meshes), entity growth, "
              "over 3 value types x 4 entity kinds x the colliding names {'', 'a', 'b'}. An explicit model of the registry "
              "(storages with kind/type/name/shared/persistent/#handles/mesh) predicts after EVERY op: returned optional, "
              "storage identity, shared()/persistent()/anonymous()/name(), operator bool, size, n_props, "
              "n_persistent_props, the persistent iteration, property_exists for every (kind,type,name), the invariant "
              "persistent => shared => named and unique, and that illegal transitions throw and change nothing. "
              "non-trivial = a case with a name collision / illegal transition AND a lifetime event (drop, clear, mesh "
              "copy / destruction); distinct = distinct program hash"),
        assumptions=["ASan + LeakSanitizer judge memory safety of the handle / mesh lifetime interleavings"],
        technique="rapidcheck model-based stateful testing of the property registry",
        level_text="Model-based state machine test with full observation after every step, under ASan/LSan.",
        level_note="SmartTagger is a thin wrapper over private properties and is not driven separately.",
    ),
    "C13": dict(
        kind="rc_program", target="t_copy", level="exploration",
        quick=dict(workers=16, max_success=1500, max_size=100, len_scale=0.7, timeout=900),
        thorough=dict(workers=16, max_success=20000, max_size=100, len_scale=2.0, timeout=3600),
        rule=("cases = programs over up to three polyhedral meshes: kernel history ops (as C01, incl. pending deletions, mode "
              "and bottom-up toggles) and shared / private / persistent property ops addressed to the active mesh, "
              "interleaved with copy construction, assignment into a mesh that has its own history, properties and "
              "caller-held handles, self-assignment, chains of copies, plus tetrahedral <-> polyhedral assignment. "
              "Right after a copy: handle-exact raw snapshot (flags, definitions, incidences, positions), deletion "
              "state, modes and bottom-up flags equal; persistent properties found by name with equal values in "
              "their own storage, non-persistent ones absent; old handles of an assigned-to mesh sized to the new "
              "counts, readable, no longer findable by name. After EVERY later op on one mesh the full snapshot "
              "(incl. all property arrays) of every other mesh must be unchanged. non-trivial = a copy/assign with >=1 "
              "persistent and >=1 non-persistent live property followed by >=3 mutations on each side; distinct = "
              "distinct program hash"),
        assumptions=["the mutated mesh must itself conform to the reference model, otherwise the case is discarded (counted)"],
        technique="rapidcheck multi-mesh programs + snapshot equality after copy + invariance of the other meshes' snapshots after every op",
        level_text="Deep-copy and independence checked as an invariant over histories on both sides of every copy, under ASan/LSan.",
        level_note="Hexahedral <-> polyhedral assignment shares the same code path (templated GeometryKernel::operator=) and is exercised only through the tetrahedral case.",
    ),
    "C19": dict(
        kind="rc_program", pre="vector_lattice", target="t_vector", level="exploration",
        quick=dict(workers=16, max_success=400, max_size=60, len_scale=0.3, timeout=900),
        thorough=dict(workers=16, max_success=6000, max_size=100, len_scale=0.5, timeout=3600),
        rule=("part 1 (complete enumeration): ALL ordered pairs of vectors over the lattice {-2..2}^D (unsigned: {0..4}^D) for "
              "D=2,3,4 and int / unsigned / float / double (2*(5^4+5^6+5^8) pairs per scalar type), every operation named by "
              "the property against its component-wise definition (exact). part 2 (generated): vectors built from a table "
              "of special floating-point values (+-0, denormals, huge, +-inf, NaN, near-1, perturbed) and small integers, "
              "all pairs among up to 6 vectors x 12 (scalar,dimension) combinations; tetrahedral (Vec3d and Vec3f) and "
              "hexahedral meshes and polyhedral meshes of pyramids / prisms over irregular planar 3..6-gons (vertices "
              "lying in different numbers of faces) with generated positions: vector, length, barycenter(edge/face/cell), halfface normal, "
              "opposite normals, NormalAttrib face and vertex normals against the formulas on brute-force vertex sets. "
              "Tolerance: component-wise + - * / exact; accumulations 4 eps * sum of magnitudes; norms / normalisation 8 "
              "eps; geometry 16 eps * scale. non-trivial = a case with >=2 vectors containing a special value, or a mesh "
              "entity checked; distinct = distinct program hash"),
        assumptions=["normals of nearly degenerate faces (area < 1% of the squared coordinate magnitude) are not compared",
                     "apply() reads an uninitialised temporary and is not named by the property: left out"],
        technique="complete lattice enumeration + rapidcheck special-value vectors and generated meshes against component-wise reference formulas",
        level_text="Exhaustive on a small integer lattice for all four scalar types; generated special floating-point values; geometric queries on generated meshes.",
        level_note="Floating-point comparisons use the stated tolerances.",
    ),
    "C20": dict(
        kind="rc_program", target="t_threads", level="exploration",
        quick=dict(workers=16, max_success=60, max_size=80, len_scale=0.5, timeout=900),
        thorough=dict(workers=16, max_success=1200, max_size=100, len_scale=0.8, timeout=3600),
        rule=("cases = a generated polyhedral mesh (history with deferred-deleted entities and live properties of several "
              "types) plus small tetrahedral and hexahedral meshes; T in {2,4,8,16} reader threads are released together "
              "(generated start skews) and each runs a generated sequence of 3-8 steps drawn from 11 groups covering the "
              "whole const surface: all upward queries / boundary tests / boundary iterators, every entity iterator and "
              "circulator (forward, backward, laps, copies), mirror-image accessors, rotational order and in-cell "
              "adjacency, all lookups, definitions / positions / barycenters / normals / lengths, property reads through "
              "existing handles, counts and flags, backward entity traversal, tet queries (get_cell_vertices, "
              "TetTopology, opposite vertex), hex queries (hex_vertices, sheets, orientation). Oracle 1: ThreadSanitizer "
              "(halt on first report). Oracle 2: each thread's result digest equals the digest of the same sequence run "
              "single-threaded beforehand. non-trivial = >=2 threads executing the same query group on a mesh with >=1 "
              "cell; distinct = distinct program hash"),
        assumptions=["the schedule is not controlled: TSan reports two conflicting unsynchronised accesses whenever both are executed in one run, whatever their timing; races on code paths the generated queries do not execute are missed",
                     "property creation / destruction is excluded, as in the statement"],
        technique="rapidcheck read-only thread programs over generated meshes, ThreadSanitizer as race oracle, differential determinism digest",
        level_text="Exploration: every const API group executed concurrently by 2-16 threads under ThreadSanitizer on generated meshes.",
        level_note="Does not enumerate interleavings; a race needs both accesses to be executed by different threads in one run (no lock-based synchronisation exists in the library today).",
    ),
    "C07": dict(
        kind="libfuzzer", fuzzers=["fuzz_ovmb", "fuzz_ascii"], target="fuzz_ovmb", level="exploration", engine="libFuzzer",
        quick=dict(workers=16, seconds=60, corpora=["seeded"]),
        thorough=dict(workers=16, seconds=480, corpora=["seeded", "empty"]),
        rule=("coverage-guided libFuzzer campaigns (ASan + UBSan + _GLIBCXX_ASSERTIONS, NDEBUG) against ovmb_read and "
              "FileManager::readStream for polyhedral / tetrahedral / hexahedral meshes x topology_check x bottom_up "
              "(selector byte). Mode A: raw bytes. Mode B (structure-aware): an edit script decoded with "
              "FuzzedDataProvider is applied to a valid file (reference-encoder output of built-in meshes / valid text "
              "files): numeric header, chunk-header and sub-header fields replaced by boundary values or original+-1, "
              "chunks dropped / duplicated / moved, truncation, byte splices; tokens / lines of the text format "
              "dropped, repeated or replaced by non-numeric text and boundary numbers. Oracle inside the target: "
              "sanitizer-clean, the call returns a result code / bool, or lets std::bad_alloc / std::length_error escape (a "
              "declared size that cannot be allocated; any other escaping exception is a violation), and on success every stored "
              "handle designates an existing entity, every property has one element per entity and the mesh can be "
              "traversed with bottom-up incidences rebuilt. Seed corpus: the repository's test files + structure-aware "
              "seeds, format dictionaries. Inputs declaring > 10^5 entities (or > 5-digit integers in text) are "
              "skipped and counted in the campaigns; that clause is decided separately by ENUMERATION (target t_huge, "
              "optimised build without sanitizer, every case in a forked child under RLIMIT_AS = 1 GiB and a 20 s "
              "limit): every byte offset of two small valid OVMB files x {u64, u32} x 14 huge values (2^20 ... 2^64-1), "
              "and every numeric token of two valid text files x 11 huge decimal numbers (up to 20 digits, -1): the "
              "child must end without a signal with failure, an escaping std::exception (bad_alloc / length_error) "
              "or success with a valid mesh. non-trivial = input passes the magic / header (OVMB) resp. reaches the Vertices "
              "section (ASCII); distinct = distinct input hash, reported as the largest per-process count (a lower "
              "bound of the union)"),
        assumptions=["-timeout=10 during the campaign; a timeout artifact counts only if two replays of the < 64 KB input with a 150 s limit still do not terminate",
                     "libFuzzer seeds pin a campaign only approximately; the saved artifact is the reproducible unit"],
        technique="coverage-guided fuzzing (libFuzzer) with structure-aware mutation and an in-target validity post-condition; enumeration of huge declared sizes under an address-space limit",
        level_text="Coverage-guided byte-level and structure-aware fuzzing of both readers under sanitizers with a semantic post-condition.",
        level_note="Declared sizes beyond 10^5 are excluded from the sanitizer campaigns (a read whose work is proportional to a declared count of 10^6 takes tens of seconds under ASan and cannot be told from a hang) and covered by the t_huge enumeration instead (no sanitizer there).",
    ),
}

# coverage-guided second engine: the libFuzzer build of the same interpreter / oracles takes a share of the workers
_FUZZ = {"fuzz_kernel": ["C01", "C02", "C03", "C04", "C12", "C17"], "fuzz_queries": ["C05", "C08", "C09", "C10", "C11"],
         "fuzz_tet": ["C15"], "fuzz_hex": ["C16"], "fuzz_copy": ["C13"], "fuzz_registry": ["C14"]}
# cost of one 100-op program differs by two orders of magnitude between the oracles (per-step sweeps): size the
# initial corpus (random programs) and the program length so that loading it takes well under the campaign time
_FUZZ_SIZE = {"C12": (15, 40), "C10": (15, 40), "C16": (15, 40), "C15": (20, 25),
              "C17": (40, 60), "C05": (40, 60), "C08": (60, 60), "C09": (40, 60), "C11": (40, 60)}
# thorough tier: case counts are upper bounds; every worker stops starting new cases after budget_s seconds
for _c in CHECKS.values():
    if _c["kind"] == "rc_program":
        _c["thorough"].setdefault("budget_s", 1500)
        _c["thorough"]["timeout"] = 3000
for _t, _ids in _FUZZ.items():
    for _i in _ids:
        _n, _ops = _FUZZ_SIZE.get(_i, (300, 110))
        # quick tier: only where one execution is cheap enough for a 45 s campaign to add thousands of executions
        _q = None if _i in ("C05", "C09", "C10", "C11", "C12", "C15", "C16") else dict(workers=2, seconds=45, seed_programs=_n, max_ops=_ops)
        CHECKS[_i]["fuzz"] = dict(target=_t, quick=_q,
                                  thorough=dict(workers=5, seconds=1500, seed_programs=_n * 3, max_ops=_ops))

ENGINES = [
    {"name": "libFuzzer", "path": "/verif/harness", "serves_properties": sorted(["C07"] + [i for ids in _FUZZ.values() for i in ids]),
     "kind_free_text": "clang libFuzzer with ASan+UBSan: reader targets fuzz_ovmb / fuzz_ascii with an in-target post-condition (C07); "
                       "fuzz_kernel/queries/tet/hex/copy/registry = the rapidcheck program interpreters and oracles compiled with a libFuzzer entry"},
    {"name": "rapidcheck", "path": "/verif/harness", "serves_properties": sorted(CHECKS.keys()),
     "kind_free_text": "C++ rapidcheck targets over op programs; python driver ./check (workers, ddmin, replay, evidence)"},
]
NOT_APPLICABLE = {}
