"""Tables: harness binaries (TARGETS) and per-property check configuration (CHECKS)."""

RC = "-lrapidcheck"

TARGETS = {
    "t_kernel": dict(variant="asan", srcs=["t_kernel.cc"], libs=RC),
}

# kind "rc_program": rapidcheck over op programs; workers run `<bin> --run ID`
CHECKS = {
    "C01": dict(
        kind="rc_program", target="t_kernel", level="exploration",
        quick=dict(workers=16, max_success=1200, max_size=100, len_scale=0.6, timeout=600),
        thorough=dict(workers=16, max_success=15000, max_size=100, len_scale=2.0, timeout=3600),
        rule=("cases = random programs over the polyhedral kernel API (adds incl. macro cell builders, set_*, "
              "delete_*, swap_*, collect_garbage, clear, bottom-up and deletion-mode toggles); after EVERY primitive "
              "all enabled upward queries are compared with a brute-force scan of the stored definitions. "
              "non-trivial = history contains >=1 cell and >=1 deletion/swap/set_*/re-enable after which >=1 upward "
              "query has a non-empty answer; distinct = distinct program hash"),
        assumptions=["UBSan vptr check disabled (fires on every property creation, unrelated)",
                     "domain: no halfface used by two live cells; handles passed are live and in range"],
        technique="rapidcheck stateful history generation + brute-force inverse-relation oracle after every step",
        level_text=("Random valid API histories (all deletion modes, bottom-up toggles, non-manifold and degenerate "
                    "meshes) with every enabled upward query compared against a scan of the definitions after every "
                    "primitive step, under ASan/UBSan with asserts on; failures shrink to a short op list."),
        level_note="Bounded by program length (<=60 ops quick, <=200 thorough) and <=40 vertices; never proves absence.",
    ),
    "C02": dict(
        kind="rc_program", target="t_kernel", level="exploration",
        quick=dict(workers=16, max_success=8000, max_size=100, len_scale=0.6, timeout=600),
        thorough=dict(workers=16, max_success=100000, max_size=100, len_scale=2.0, timeout=3600),
        rule=("cases = random programs as for C01 (all four deletion modes and all bottom-up subsets toggled "
              "mid-history); after every primitive the whole mesh (counts, logical counts, is_deleted flags, "
              "needs_garbage_collection, genus, every live definition) is compared with a uid-addressed reference "
              "model whose deletion rule is 'exactly the upward closure'. non-trivial = a deletion whose closure has "
              ">=2 entities and leaves a survivor of a higher kind; distinct = distinct program hash"),
        assumptions=["renumbering is predicted from the documented rule (identity / shift / swap-with-last)"],
        technique="rapidcheck stateful history generation + uid-addressed reference model (upward-closure deletion)",
        level_text=("Model-based test: the same history is applied to the mesh and to an independent uid-addressed "
                    "reference model; the full observable state is compared after every primitive in all four "
                    "deletion modes with arbitrary bottom-up subsets."),
        level_note="Bounded by program length and mesh size; the renumbering rule is the documented one.",
    ),
}

ENGINES = [
    {"name": "rapidcheck", "path": "/verif/harness", "serves_properties": sorted(CHECKS.keys()),
     "kind_free_text": "C++ rapidcheck targets over op programs; python driver ./check (workers, ddmin, replay, evidence)"},
]
NOT_APPLICABLE = {}
