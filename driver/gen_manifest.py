#!/usr/bin/env python3
"""Regenerates /verif/MANIFEST.json from driver/targets.py (single source of truth)."""
import json
import os
import sys

HERE = os.path.dirname(os.path.abspath(__file__))
sys.path.insert(0, HERE)
from targets import CHECKS, NOT_APPLICABLE, ENGINES  # noqa: E402

ALL = ["C%02d" % i for i in range(1, 21)]
m = {
    "version": 1,
    "setup_cmd": "./check setup",
    "hooks": {
        "guard": "OVM_VERIF_HOOKS",
        "enable": "no source hooks are needed: checks observe the library through its public API, protected members via "
                  "harness-side subclasses, memory errors via sanitizers; library variants are built from /repo by the "
                  "repo's own CMake into /verif/build/lib-<variant>",
        "baseline_off_cmd": "cmake -G Ninja -S /repo -B /repo/_build && cmake --build /repo/_build && "
                            "ctest --test-dir /repo/_build -j8 --timeout 900",
        "source_commits": [],
        "add_only": True,
    },
    "engines": ENGINES,
    "checks": [],
    "not_applicable": [],
    "notes": "Property-based testing / fuzzing only. ./check <ID> --tier quick|thorough; VERIF_SEED selects the seed "
             "(default 1). Genuine defects found and repaired are listed in known_findings.json (status fixed); three "
             "unrepaired OVM-ASCII findings are listed there with status known and probes under known/C06.",
}
for pid in ALL:
    if pid in CHECKS:
        c = CHECKS[pid]
        m["checks"].append({
            "property_id": pid,
            "quick_cmd": "./check %s --tier quick" % pid,
            "thorough_cmd": "./check %s --tier thorough" % pid,
            "evidence_file": "/verif/evidence/%s.json" % pid,
            "replay_cmd_template": "./check --replay %s {path}" % pid,
            "engine": c.get("engine", "rapidcheck"),
            "level_claimed": {"category": c["level"], "text": c["level_text"], "design_ref": c.get("design_ref", "DESIGN.md section 3, " + pid)},
            "level_note": c["level_note"],
            "technique": c["technique"] + (" + libFuzzer coverage-guided campaign over the same program interpreter and oracles"
                                           + ("" if c["fuzz"].get("quick") else " (thorough tier only)") if c.get("fuzz") else ""),
        })
    else:
        m["not_applicable"].append({"property_id": pid, "reason": NOT_APPLICABLE.get(pid, "check not built yet (work in progress)")})
json.dump(m, open(os.path.join(os.path.dirname(HERE), "MANIFEST.json"), "w"), indent=1)
print("MANIFEST.json: %d checks, %d not claimed" % (len(m["checks"]), len(m["not_applicable"])))
