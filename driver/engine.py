"""Check execution: workers, candidate minimisation, confirmation, evidence."""
import glob
import hashlib
import json
import os
import shutil
import subprocess
import sys
import time

import vflib
from vflib import VERIF, WORK, NCPU, log, build_targets, seed_for, sanitizer_env
from targets import TARGETS, CHECKS

REPLAYS = os.path.join(VERIF, "replays")
EVIDENCE = os.path.join(VERIF, "evidence")
KNOWN = os.path.join(VERIF, "known_findings.json")


def base_seed():
    try:
        return int(os.environ.get("VERIF_SEED", "1"))
    except ValueError:
        return 1


def load_known():
    if not os.path.exists(KNOWN):
        return []
    return json.load(open(KNOWN)).get("findings", [])


def list_checks():
    for pid in sorted(CHECKS):
        c = CHECKS[pid]
        log("%s  kind=%s target=%s level=%s" % (pid, c["kind"], c.get("target"), c["level"]))


# --------------------------------------------------------------------------
# replay / minimisation (program-text cases)

def replay_cmd(cfg, binpath, pid, path):
    try:
        head = open(path, errors="replace").read(300)
    except OSError:
        head = ""
    for line in head.splitlines():
        if line.startswith("#! target "):
            return [os.path.join(vflib.harness_dir(TARGETS[line.split()[2]]["variant"]), line.split()[2]), "--replay", pid, path]
    if "#! kind vector_lattice" in head:
        return [os.path.join(vflib.harness_dir("asan"), "t_vector"), "--lattice", "--out", os.path.join(WORK, "lattice_replay.json")]
    if "#! kind handle_index" in head:
        return [os.path.join(vflib.harness_dir("opt"), "t_handles"), "--replay", path]
    return [binpath, "--replay", pid, path]


def replay_fails(cfg, binpath, pid, path, timeout=120):
    """True if the saved case still fails (oracle failure or sanitizer abort)."""
    try:
        r = subprocess.run(replay_cmd(cfg, binpath, pid, path), stdout=subprocess.PIPE, stderr=subprocess.STDOUT,
                           env=sanitizer_env(), timeout=timeout, text=True, errors="replace")
    except subprocess.TimeoutExpired:
        return False, "timeout"
    return r.returncode != 0, r.stdout[-3000:]


def split_case(text):
    head = [l for l in text.splitlines() if l.startswith("#!")]
    body = [l for l in text.splitlines() if l.strip() and not l.startswith("#")]
    return head, body


def ddmin_program(cfg, binpath, pid, path, budget_s=240):
    """Minimise a crashing program (op list) by delta debugging over lines, then shrink integers."""
    text = open(path).read()
    head, lines = split_case(text)
    tmp = path + ".min"
    t0 = time.time()

    def fails(cand):
        open(tmp, "w").write("\n".join(head + cand) + "\n")
        f, _ = replay_fails(cfg, binpath, pid, tmp, timeout=60)
        return f

    if not fails(lines):
        return path
    n = 2
    while len(lines) >= 2 and time.time() - t0 < budget_s:
        chunk = max(1, len(lines) // n)
        reduced = False
        for i in range(0, len(lines), chunk):
            cand = lines[:i] + lines[i + chunk:]
            if cand and fails(cand):
                lines = cand
                n = max(n - 1, 2)
                reduced = True
                break
        if not reduced:
            if chunk == 1:
                break
            n = min(n * 2, len(lines))
    # integer shrinking: try 0 for every argument
    for li in range(len(lines)):
        if time.time() - t0 > budget_s:
            break
        toks = lines[li].split("#")[0].split()
        for k in range(1, len(toks)):
            if toks[k] == "0":
                continue
            cand_toks = toks[:k] + ["0"] + toks[k + 1:]
            cand = lines[:li] + [" ".join(cand_toks)] + lines[li + 1:]
            if fails(cand):
                lines = cand
                toks = cand_toks
    open(tmp, "w").write("\n".join(head + lines) + "\n")
    return tmp


def confirm_and_store(cfg, binpath, pid, cand_path, why, also=None):
    """Replay 3x; store under replays/<pid>/ and return stored path, or None if not reproducible."""
    outs = []
    for _ in range(3):
        f, out = replay_fails(cfg, binpath, pid, cand_path)
        outs.append(out)
        if not f:
            return None, outs[-1]
    text = open(cand_path).read()
    h = hashlib.sha1(text.encode()).hexdigest()[:12]
    d = os.path.join(REPLAYS, pid)
    os.makedirs(d, exist_ok=True)
    dst = os.path.join(d, "fail-%s.txt" % h)
    # keep the annotated rendering produced by the replay runner if available
    rendered = [l for l in outs[-1].splitlines() if l and not l.startswith("REPLAY-") and not l.startswith("=") and "Sanitizer" not in l]
    tline = "#! target %s\n" % also["target"] if also else ""
    open(dst, "w").write("#! id %s\n%s#! why %s\n" % (pid, tline, why.replace("\n", " ")[:400]) + "\n".join(
        l for l in text.splitlines() if not l.startswith("#!")) + "\n")
    return dst, outs[-1]


# --------------------------------------------------------------------------

def write_evidence(pid, tier, cfg, cov, wall, violations, extra_assumptions=None):
    os.makedirs(EVIDENCE, exist_ok=True)
    ev = {
        "property_id": pid, "tier": tier, "seed": base_seed(), "level": cfg["level"],
        "coverage": cov, "assumptions": list(cfg.get("assumptions", [])) + list(extra_assumptions or []),
        "wall_s": round(wall, 2), "violations": violations,
    }
    tmp = os.path.join(EVIDENCE, pid + ".json.tmp")
    json.dump(ev, open(tmp, "w"), indent=1)
    os.replace(tmp, os.path.join(EVIDENCE, pid + ".json"))


def run_regressions(cfg, binpath, pid):
    """Saved failing inputs of earlier runs (committed) must pass now."""
    bad = []
    files = sorted(glob.glob(os.path.join(REPLAYS, pid, "*.txt")))
    for f in files:
        fails, out = replay_fails(cfg, binpath, pid, f)
        if fails:
            bad.append((f, out))
    return len(files), bad


def pre_handles_exhaustive(pid, violations):
    """C08 part 1: complete enumeration of [0, 2^30) in the optimised build; returns coverage keys"""
    bins = build_targets(["t_handles"])
    d = os.path.join(WORK, pid, "handles")
    os.makedirs(d, exist_ok=True)
    out = os.path.join(d, "stats.json")
    r = subprocess.run([bins["t_handles"], "--out", out], stdout=subprocess.PIPE, stderr=subprocess.STDOUT, text=True)
    s = json.load(open(out))
    if r.returncode != 0 or s["bad_index"] >= 0:
        rp = os.path.join(REPLAYS, pid)
        os.makedirs(rp, exist_ok=True)
        path = os.path.join(rp, "fail-index-%d.txt" % s["bad_index"])
        open(path, "w").write("#! id %s\n#! kind handle_index\nindex %d\n# %s\n" % (pid, s["bad_index"], s["message"]))
        violations.append((path, "handle conversion identity fails at index %d: %s" % (s["bad_index"], s["message"])))
    return {"handle_indices_enumerated": s["indices_checked"], "handle_index_space": s["space"], "exhaustive": bool(s["exhaustive"]),
            "exhaustive_scope": "handle conversion identities over every index in [0, 2^30); the history part is sampled"}


def pre_vector_lattice(pid, violations):
    """C19 part 1: complete enumeration of the integer lattice in the sanitizer build"""
    bins = build_targets(["t_vector"])
    d = os.path.join(WORK, pid, "lattice")
    os.makedirs(d, exist_ok=True)
    out = os.path.join(d, "lattice.json")
    r = subprocess.run([bins["t_vector"], "--lattice", "--out", out], stdout=subprocess.PIPE, stderr=subprocess.STDOUT, text=True, env=sanitizer_env())
    try:
        s = json.load(open(out))
    except Exception:
        s = {"lattice_pairs": 0, "fail": "lattice run aborted: " + r.stdout[-500:]}
    if r.returncode != 0 or s["fail"]:
        rp = os.path.join(REPLAYS, pid)
        os.makedirs(rp, exist_ok=True)
        path = os.path.join(rp, "fail-lattice.txt")
        open(path, "w").write("#! id %s\n#! kind vector_lattice\n# %s\n" % (pid, s["fail"]))
        violations.append((path, "lattice enumeration: " + s["fail"]))
    return {"lattice_pairs_enumerated": s["lattice_pairs"], "exhaustive": not s["fail"],
            "exhaustive_scope": "all ordered vector pairs over {-2..2}^D / {0..4}^D, D=2,3,4, int/unsigned/float/double; the special-value and mesh part is sampled"}


PRE = {"handles_exhaustive": pre_handles_exhaustive, "vector_lattice": pre_vector_lattice}


def run_rc_program(pid, tier, cfg):
    t0 = time.time()
    tcfg = dict(cfg[tier])
    if os.environ.get("VF_MAX_SUCCESS"):
        tcfg["max_success"] = int(os.environ["VF_MAX_SUCCESS"])
    if os.environ.get("VF_BUDGET_S"):
        tcfg["budget_s"] = int(os.environ["VF_BUDGET_S"])
    if os.environ.get("VF_WORKERS"):
        tcfg["workers"] = int(os.environ["VF_WORKERS"])
    bins = build_targets([cfg["target"]])
    binpath = bins[cfg["target"]]
    alsos = cfg.get("also") or []
    if isinstance(alsos, dict):
        alsos = [alsos]
    for a in alsos:
        build_targets([a["target"]])  # regression replays may name it
    known = [k for k in load_known() if k.get("property") == pid and k.get("status") == "known"]
    violations = []
    nreg, bad = run_regressions(cfg, binpath, pid)
    for f, out in bad:
        violations.append((f, "regression replay fails: " + out.strip().splitlines()[-1] if out.strip() else "regression"))
    wdir = os.path.join(WORK, pid)
    shutil.rmtree(wdir, ignore_errors=True)
    extra_cov = {}
    if cfg.get("pre"):
        extra_cov = PRE[cfg["pre"]](pid, violations)
    procs = []
    nworkers = min(tcfg["workers"], NCPU)
    # optional coverage-guided campaign over the same interpreter (libFuzzer build of the same source)
    fz = cfg.get("fuzz")
    fprocs = []
    if fz and fz.get(tier) and not os.environ.get("VF_NO_FUZZ"):
        ftc = dict(fz[tier])
        if os.environ.get("VF_FUZZ_SECONDS"):
            ftc["seconds"] = int(os.environ["VF_FUZZ_SECONDS"])
        fbin = build_targets([fz["target"]])[fz["target"]]
        nworkers = max(1, nworkers - ftc["workers"])
        for j in range(ftc["workers"]):
            d = os.path.join(wdir, "fz%d" % j)
            os.makedirs(os.path.join(d, "corpus"))
            # initial corpus: random programs (6 bytes per op) - a pure function of VERIF_SEED; coverage-guided
            # mutation and cross-over start from histories of realistic length instead of from the empty input
            import random
            rnd = random.Random(seed_for(base_seed(), pid, 200 + j))
            for k in range(ftc.get("seed_programs", 300)):
                nops = rnd.randint(min(10, ftc.get("max_ops", 110)), ftc.get("max_ops", 110))
                open(os.path.join(d, "corpus", "s%03d" % k), "wb").write(bytes(rnd.randrange(256) for _ in range(6 * nops)))
            env = sanitizer_env()
            env["VF_FUZZ_ID"] = pid
            env["VF_FUZZ_OUT"] = d
            lf = open(os.path.join(d, "log.txt"), "w")
            cmd = [fbin, "-max_total_time=%d" % ftc["seconds"], "-max_len=%d" % (9 * ftc.get("max_ops", 110)), "-timeout=120",
                   "-rss_limit_mb=4096", "-close_fd_mask=3", "-print_final_stats=1", "-seed=%d" % (seed_for(base_seed(), pid, 100 + j) % 2147483647),
                   "-artifact_prefix=%s/art-" % d, os.path.join(d, "corpus")]
            fprocs.append((j, d, subprocess.Popen(cmd, stdout=lf, stderr=subprocess.STDOUT, env=env, cwd=d), lf, fbin, ftc["seconds"]))
    # optional additional targets serving the same property (e.g. C03 through the tetrahedral collapse harness):
    # the last workers are handed to them
    main_bin = binpath
    assign = {}
    also_of_bin = {}
    nxt = nworkers
    for a in alsos:
        abin = build_targets([a["target"]])[a["target"]]
        also_of_bin[abin] = a
        for _ in range(a["workers"]):
            nxt -= 1
            if nxt > 0:
                assign[nxt] = (a, abin)
    for i in range(nworkers):
        also, also_bin = assign.get(i, (None, None))
        binpath = also_bin if also else main_bin
        d = os.path.join(wdir, "w%d" % i)
        os.makedirs(d)
        env = sanitizer_env()
        ms, ls = tcfg["max_success"], tcfg.get("len_scale", 0.6)
        if also:
            ms, ls = also[tier + "_max_success"], also.get("len_scale", ls)
        env["RC_PARAMS"] = "seed=%d max_success=%d max_size=%d" % (seed_for(base_seed(), pid, i), ms, tcfg["max_size"])
        env["VF_LEN_SCALE"] = str(ls)
        if tcfg.get("budget_s"):
            env["VF_TIME_BUDGET"] = str(tcfg["budget_s"])
        for k, v in tcfg.get("env", {}).items():
            env[k] = str(v)
        lf = open(os.path.join(d, "log.txt"), "w")
        p = subprocess.Popen([binpath, "--run", pid, "--out", os.path.join(d, "stats.json"), "--work", d],
                             stdout=lf, stderr=subprocess.STDOUT, env=env)
        procs.append((i, d, p, lf, binpath, also))
    binpath = main_bin
    deadline = time.time() + tcfg.get("timeout", 900)
    timed_out = 0
    merged = {"evaluations": 0, "counters": {}, "hashes": set(), "samples": []}
    candidates = []
    for i, d, p, lf, wbin, walso in procs:
        try:
            rc = p.wait(timeout=max(1, deadline - time.time()))
        except subprocess.TimeoutExpired:
            p.kill()
            p.wait()
            timed_out += 1
            rc = None
        lf.close()
        sp = os.path.join(d, "stats.json")
        if os.path.exists(sp):
            try:
                s = json.load(open(sp))
                merged["evaluations"] += s["evaluations"]
                for k, v in s["counters"].items():
                    merged["counters"][k] = merged["counters"].get(k, 0) + v
                merged["hashes"].update(s["nontrivial_hashes"])
                for smp in s["samples"]:
                    if len(merged["samples"]) < 5:
                        merged["samples"].append(smp)
            except Exception as e:  # corrupt stats of a crashed worker
                log("warning: unreadable stats of worker %d: %s" % (i, e))
        if rc is None or rc == 0:
            continue
        lastfail = os.path.join(d, "lastfail.txt")
        inflight = os.path.join(d, "inflight.txt")
        if rc == 1 and os.path.exists(lastfail):
            candidates.append((lastfail, "oracle", d, wbin))
        elif os.path.exists(inflight):
            candidates.append((inflight, "abort rc=%s" % rc, d, wbin))
        else:
            log("warning: worker %d exited rc=%s without a case file; see %s/log.txt" % (i, rc, d))
            merged["counters"]["worker_abnormal_exit"] = merged["counters"].get("worker_abnormal_exit", 0) + 1
    fuzz_execs = 0
    for j, d, p, lf, fbin, secs in fprocs:
        try:
            p.wait(timeout=secs + 300)
        except subprocess.TimeoutExpired:
            p.kill()
            p.wait()
        lf.close()
        sp = os.path.join(d, "stats.json")
        if os.path.exists(sp):
            try:
                st = json.load(open(sp))
                fuzz_execs += st["evaluations"]
                merged["evaluations"] += st["evaluations"]
                merged["hashes"].update(st["nontrivial_hashes"])
                for k, v in st["counters"].items():
                    merged["counters"][k] = merged["counters"].get(k, 0) + v
            except Exception as e:
                log("warning: unreadable stats of fuzz worker %d: %s" % (j, e))
        fails = sorted(glob.glob(os.path.join(d, "fail-*.txt")))
        for f in fails:
            candidates.append((f, "oracle failure in libFuzzer campaign", d, main_bin))
        if not fails:
            for a in sorted(glob.glob(os.path.join(d, "art-crash-*"))):
                dec = a + ".txt"
                env = sanitizer_env()
                env.update(VF_FUZZ_ID=pid, VF_FUZZ_OUT=d, VF_FUZZ_DECODE=dec)
                subprocess.run([fbin, a], stdout=subprocess.DEVNULL, stderr=subprocess.DEVNULL, env=env, cwd=d)
                if os.path.exists(dec):
                    candidates.append((dec, "abort in libFuzzer campaign", d, main_bin))
    seen = set()
    nonrepro = 0
    for path, why, d, wbin in candidates:
        if why != "oracle":
            path = ddmin_program(cfg, wbin, pid, path)
        stored, out = confirm_and_store(cfg, wbin, pid, path, why, also_of_bin.get(wbin))
        if stored is None:
            nonrepro += 1
            continue
        if stored in seen:
            continue
        seen.add(stored)
        last = [l for l in out.strip().splitlines() if l.strip()]
        msg = last[-1] if last else why
        for l in last:
            if l.startswith("REPLAY-FAIL") or "ERROR: AddressSanitizer" in l or "runtime error" in l or "Assertion" in l:
                msg = l
                break
        violations.append((stored, msg))
    cov = {
        "evaluations": merged["evaluations"],
        "distinct_nontrivial": len(merged["hashes"]),
        "rule": cfg["rule"],
        "samples": merged["samples"][:5],
        "classes": dict(sorted(merged["counters"].items())),
        "workers": nworkers, "workers_timed_out": timed_out,
        "regression_replays_run": nreg,
        "nonreproducible_candidates": nonrepro,
        "libfuzzer_executions_included": fuzz_execs, "libfuzzer_workers": len(fprocs),
        "rc_params": "max_success=%d max_size=%d len_scale=%s per worker" % (tcfg["max_success"], tcfg["max_size"], tcfg.get("len_scale")),
    }
    cov.update(extra_cov)
    for k in known:
        # a listed finding is reported only while its probe (a committed replay file run with the exclusion
        # switched off) still fails; the exploration itself excludes the listed inputs by construction
        probe = k.get("probe")
        if probe:
            ppath = os.path.join(VERIF, probe)
            head = open(ppath, errors="replace").read(400)
            env = sanitizer_env()
            tgt = cfg["target"]
            for line in head.splitlines():
                if line.startswith("#! env ") and "=" in line:
                    kk, vv = line[7:].strip().split("=", 1)
                    env[kk] = vv
                if line.startswith("#! target "):
                    tgt = line.split()[2]
            pbin = build_targets([tgt])[tgt]
            try:
                r = subprocess.run([pbin, "--replay", pid, ppath], stdout=subprocess.PIPE, stderr=subprocess.STDOUT, env=env, timeout=300, text=True, errors="replace")
                still = r.returncode != 0
            except subprocess.TimeoutExpired:
                still = True
            if not still:
                log("note: listed finding no longer reproduces (%s); not reported" % probe)
                continue
        log("KNOWN-FINDING: property=%s %s" % (pid, k.get("what", "")))
    write_evidence(pid, tier, cfg, cov, time.time() - t0, len(violations))
    for path, msg in violations:
        log("VIOLATION property=%s replay=%s" % (pid, path))
        log("  " + msg)
    log("%s %s: %d cases, %d distinct non-trivial, %d violations, %.0fs" % (
        pid, tier, cov["evaluations"], cov["distinct_nontrivial"], len(violations), time.time() - t0))
    return 1 if violations else 0


def run_check(pid, tier):
    cfg = CHECKS[pid]
    kind = cfg["kind"]
    if kind == "rc_program":
        return run_rc_program(pid, tier, cfg)
    import kinds
    return kinds.run(pid, tier, cfg)


def replay_one(pid, path):
    cfg = CHECKS[pid]
    if cfg["kind"] == "libfuzzer":
        import kinds
        bins = build_targets(cfg["fuzzers"])
        fails, out, _ = kinds.replay_any(bins, path)
        log(out[-1500:])
        return 1 if fails else 0
    bins = build_targets([cfg["target"]])
    r = subprocess.run(replay_cmd(cfg, bins[cfg["target"]], pid, path), env=sanitizer_env())
    return 0 if r.returncode == 0 else 1


def main(argv, doc=""):
    if len(argv) >= 1 and argv[0] == "setup":
        names = sorted(TARGETS.keys())
        t0 = time.time()
        build_targets(names)
        log("setup ok: %d targets built in %.0fs" % (len(names), time.time() - t0))
        return 0
    if len(argv) >= 1 and argv[0] == "list":
        list_checks()
        return 0
    if len(argv) >= 3 and argv[0] == "--replay":
        return replay_one(argv[1], argv[2])
    if not argv or argv[0] not in CHECKS:
        log(doc)
        return 2
    pid = argv[0]
    tier = os.environ.get("VERIF_TIER", "quick")
    if "--tier" in argv:
        tier = argv[argv.index("--tier") + 1]
    if tier not in ("quick", "thorough"):
        tier = "quick"
    return run_check(pid, tier)
