// C01: bottom-up queries == brute-force scan of the stored definitions of the
// not-deleted entities. Model-free: only the mesh's own public API is used.
#pragma once
#include <OpenVolumeMesh/Core/TopologyKernel.hh>
#include <algorithm>
#include <sstream>
#include <string>
#include <vector>

namespace vf {
using namespace OpenVolumeMesh;

struct BruteForce {
  // relations recomputed from definitions of live entities
  std::vector<std::vector<int>> out;        // vertex -> outgoing halfedges
  std::vector<std::vector<int>> hfs;        // halfedge -> incident halffaces (one per occurrence)
  std::vector<int> cell_of;                 // halfface -> live cell or -1
  std::vector<int> cell_count;              // halfface -> number of live cells using it
  std::vector<char> v_live, e_live, f_live, c_live;
  bool two_cells_on_halfface = false;

  template <class M> void build(const M &m) {
    const int nv = (int)m.n_vertices(), ne = (int)m.n_edges(), nf = (int)m.n_faces(), nc = (int)m.n_cells();
    out.assign((size_t)nv, {});
    hfs.assign((size_t)ne * 2, {});
    cell_of.assign((size_t)nf * 2, -1);
    cell_count.assign((size_t)nf * 2, 0);
    v_live.assign((size_t)nv, 0); e_live.assign((size_t)ne, 0); f_live.assign((size_t)nf, 0); c_live.assign((size_t)nc, 0);
    for (int v = 0; v < nv; ++v) v_live[(size_t)v] = !m.is_deleted(VertexHandle(v));
    for (int e = 0; e < ne; ++e) {
      if (m.is_deleted(EdgeHandle(e))) continue;
      e_live[(size_t)e] = 1;
      const auto &ed = m.edge(EdgeHandle(e));
      out[(size_t)ed.from_vertex().idx()].push_back(2 * e);
      out[(size_t)ed.to_vertex().idx()].push_back(2 * e + 1);
    }
    for (int f = 0; f < nf; ++f) {
      if (m.is_deleted(FaceHandle(f))) continue;
      f_live[(size_t)f] = 1;
      for (auto he : m.face(FaceHandle(f)).halfedges()) {
        hfs[(size_t)he.idx()].push_back(2 * f);
        hfs[(size_t)(he.idx() ^ 1)].push_back(2 * f + 1);
      }
    }
    for (int c = 0; c < nc; ++c) {
      if (m.is_deleted(CellHandle(c))) continue;
      c_live[(size_t)c] = 1;
      for (auto hf : m.cell(CellHandle(c)).halffaces()) {
        if (cell_count[(size_t)hf.idx()]++ > 0) two_cells_on_halfface = true;
        cell_of[(size_t)hf.idx()] = c;
      }
    }
  }
};

inline std::string vec_str(std::vector<int> v) {
  std::ostringstream o;
  o << "[";
  for (size_t i = 0; i < v.size(); ++i) o << (i ? "," : "") << v[i];
  o << "]";
  return o.str();
}
inline std::vector<int> sorted(std::vector<int> v) { std::sort(v.begin(), v.end()); return v; }
inline std::vector<int> uniq(std::vector<int> v) {
  std::sort(v.begin(), v.end());
  v.erase(std::unique(v.begin(), v.end()), v.end());
  return v;
}
template <class Range> std::vector<int> collect(Range r) {
  std::vector<int> v;
  for (auto it = r.first; it != r.second; ++it) {
    v.push_back((*it).idx());
    if (v.size() > 100000) break;  // a runaway circulator is a failure, not a hang
  }
  return v;
}
template <class It> std::vector<int> collect_valid(It it) {
  std::vector<int> v;
  for (; it.valid(); ++it) {
    v.push_back((*it).idx());
    if (v.size() > 100000) break;
  }
  return v;
}

template <class Vec> bool is_rotation(const Vec &a, const Vec &b) {
  if (a.size() != b.size()) return false;
  size_t n = a.size();
  if (n == 0) return true;
  for (size_t r = 0; r < n; ++r) {
    bool eq = true;
    for (size_t i = 0; i < n && eq; ++i) eq = a[(i + r) % n] == b[i];
    if (eq) return true;
  }
  return false;
}

struct C01Counters {
  uint64_t nonempty_answers = 0, queries = 0;
};

#define C01_CMP(what, center, got, exp)                                                     \
  do {                                                                                      \
    ++cnt.queries;                                                                          \
    auto g_ = (got);                                                                        \
    auto e_ = (exp);                                                                        \
    if (!e_.empty()) ++cnt.nonempty_answers;                                                \
    if (g_ != e_) {                                                                         \
      std::ostringstream o_;                                                                \
      o_ << what << "(" << center << ") = " << vec_str(g_) << " but brute force over definitions gives " << vec_str(e_); \
      return o_.str();                                                                      \
    }                                                                                       \
  } while (0)
#define C01_EQ(what, center, got, exp)                                                      \
  do {                                                                                      \
    ++cnt.queries;                                                                          \
    auto g_ = (got);                                                                        \
    auto e_ = (exp);                                                                        \
    if (g_ != e_) {                                                                         \
      std::ostringstream o_;                                                                \
      o_ << what << "(" << center << ") = " << g_ << " but brute force gives " << e_;      \
      return o_.str();                                                                      \
    }                                                                                       \
  } while (0)

// returns "" when all enabled upward queries agree with the brute-force scan
template <class M> std::string c01_check(const M &m, C01Counters &cnt) {
  BruteForce bf;
  bf.build(m);
  if (bf.two_cells_on_halfface) return "";  // outside the property's domain
  const bool vbu = m.has_vertex_bottom_up_incidences(), ebu = m.has_edge_bottom_up_incidences(),
             fbu = m.has_face_bottom_up_incidences();
  const int nv = (int)m.n_vertices(), ne = (int)m.n_edges(), nf = (int)m.n_faces(), nc = (int)m.n_cells();

  auto face_bnd = [&](int f) { return bf.cell_of[(size_t)2 * f] < 0 || bf.cell_of[(size_t)2 * f + 1] < 0; };
  auto he_bnd = [&](int he) { for (int hf : bf.hfs[(size_t)he]) if (face_bnd(hf / 2)) return true; return false; };
  auto v_bnd = [&](int v) { for (int he : bf.out[(size_t)v]) if (he_bnd(he)) return true; return false; };
  auto c_bnd = [&](int c) {
    for (auto hf : m.cell(CellHandle(c)).halffaces()) if (face_bnd(hf.idx() / 2)) return true;
    return false;
  };

  if (vbu) {
    for (int v = 0; v < nv; ++v) {
      if (!bf.v_live[(size_t)v]) continue;
      VertexHandle vh(v);
      const auto &o = bf.out[(size_t)v];
      C01_CMP("outgoing_halfedges", v, sorted(collect(m.outgoing_halfedges(vh))), sorted(o));
      std::vector<int> in, vv, ve;
      for (int he : o) {
        in.push_back(he ^ 1);
        ve.push_back(he / 2);
        const auto &ed = m.edge(EdgeHandle(he / 2));
        vv.push_back((he & 1) ? ed.from_vertex().idx() : ed.to_vertex().idx());
      }
      C01_CMP("incoming_halfedges", v, sorted(collect(m.incoming_halfedges(vh))), sorted(in));
      C01_CMP("vertex_vertices", v, sorted(collect(m.vertex_vertices(vh))), sorted(vv));
      C01_CMP("vertex_edges", v, sorted(collect(m.vertex_edges(vh))), sorted(ve));
      C01_EQ("valence(VH)", v, m.valence(vh), o.size());
      if (ebu) {
        std::vector<int> vhf;
        for (int he : o)
          for (int hf : bf.hfs[(size_t)((he / 2) * 2)]) { vhf.push_back(hf); vhf.push_back(hf ^ 1); }
        C01_CMP("vertex_halffaces", v, sorted(collect(m.vertex_halffaces(vh))), uniq(vhf));
      }
      if (ebu && fbu) {
        std::vector<int> vf, vc;
        for (int he : o)
          for (int hf : bf.hfs[(size_t)he]) {
            vf.push_back(hf / 2);
            if (bf.cell_of[(size_t)hf] >= 0) vc.push_back(bf.cell_of[(size_t)hf]);
          }
        C01_CMP("vertex_faces", v, sorted(collect(m.vertex_faces(vh))), uniq(vf));
        C01_CMP("vertex_cells", v, sorted(collect(m.vertex_cells(vh))), uniq(vc));
        C01_EQ("is_boundary(VH)", v, m.is_boundary(vh), v_bnd(v));
      }
    }
  }
  if (ebu) {
    for (int he = 0; he < 2 * ne; ++he) {
      if (!bf.e_live[(size_t)he / 2]) continue;
      HalfEdgeHandle heh(he);
      const auto &l = bf.hfs[(size_t)he];
      C01_CMP("halfedge_halffaces", he, sorted(collect(m.halfedge_halffaces(heh))), sorted(l));
      std::vector<int> fs;
      for (int hf : l) fs.push_back(hf / 2);
      C01_CMP("halfedge_faces", he, sorted(collect(m.halfedge_faces(heh))), uniq(fs));
      if (fbu) {
        std::vector<int> cs;
        for (int hf : l) if (bf.cell_of[(size_t)hf] >= 0) cs.push_back(bf.cell_of[(size_t)hf]);
        C01_CMP("halfedge_cells", he, sorted(collect(m.halfedge_cells(heh))), uniq(cs));
        C01_EQ("is_boundary(HEH)", he, m.is_boundary(heh), he_bnd(he));
      }
      if ((he & 1) == 0) {
        EdgeHandle eh(he / 2);
        std::vector<int> ehf;
        for (int hf : l) { ehf.push_back(hf); ehf.push_back(hf ^ 1); }
        C01_CMP("edge_halffaces", he / 2, sorted(collect(m.edge_halffaces(eh))), sorted(ehf));
        C01_CMP("edge_faces", he / 2, sorted(collect(m.edge_faces(eh))), uniq(fs));
        C01_EQ("valence(EH)", he / 2, m.valence(eh), l.size());
        if (fbu) {
          std::vector<int> cs;
          for (int hf : l) if (bf.cell_of[(size_t)hf] >= 0) cs.push_back(bf.cell_of[(size_t)hf]);
          C01_CMP("edge_cells", he / 2, sorted(collect(m.edge_cells(eh))), uniq(cs));
          C01_EQ("is_boundary(EH)", he / 2, m.is_boundary(eh), he_bnd(he));
        }
      }
    }
  }
  if (fbu) {
    for (int hf = 0; hf < 2 * nf; ++hf) {
      if (!bf.f_live[(size_t)hf / 2]) continue;
      HalfFaceHandle hfh(hf);
      C01_EQ("incident_cell", hf, m.incident_cell(hfh).idx(), bf.cell_of[(size_t)hf]);
      C01_EQ("is_boundary(HFH)", hf, m.is_boundary(hfh), bf.cell_of[(size_t)hf] < 0);
      if ((hf & 1) == 0) {
        auto fc = m.face_cells(FaceHandle(hf / 2));
        C01_EQ("face_cells[0]", hf / 2, fc[0].idx(), bf.cell_of[(size_t)hf]);
        C01_EQ("face_cells[1]", hf / 2, fc[1].idx(), bf.cell_of[(size_t)hf + 1]);
        C01_EQ("is_boundary(FH)", hf / 2, m.is_boundary(FaceHandle(hf / 2)), face_bnd(hf / 2));
      }
    }
    for (int c = 0; c < nc; ++c) {
      if (!bf.c_live[(size_t)c]) continue;
      std::vector<int> cc;
      for (auto hf : m.cell(CellHandle(c)).halffaces())
        if (bf.cell_of[(size_t)(hf.idx() ^ 1)] >= 0) cc.push_back(bf.cell_of[(size_t)(hf.idx() ^ 1)]);
      C01_CMP("cell_cells", c, sorted(collect(m.cell_cells(CellHandle(c)))), uniq(cc));
      C01_EQ("is_boundary(CH)", c, m.is_boundary(CellHandle(c)), c_bnd(c));
    }
    // boundary iterators = ascending live handles satisfying is_boundary
    std::vector<int> exp;
    for (int hf = 0; hf < 2 * nf; ++hf) if (bf.f_live[(size_t)hf / 2] && bf.cell_of[(size_t)hf] < 0) exp.push_back(hf);
    C01_CMP("bhf_iter", "", collect_valid(m.bhf_iter()), exp);
    exp.clear();
    for (int f = 0; f < nf; ++f) if (bf.f_live[(size_t)f] && face_bnd(f)) exp.push_back(f);
    C01_CMP("bf_iter", "", collect_valid(m.bf_iter()), exp);
    exp.clear();
    for (int c = 0; c < nc; ++c) if (bf.c_live[(size_t)c] && c_bnd(c)) exp.push_back(c);
    C01_CMP("bc_iter", "", collect_valid(m.bc_iter()), exp);
    if (ebu) {
      exp.clear();
      for (int he = 0; he < 2 * ne; ++he) if (bf.e_live[(size_t)he / 2] && he_bnd(he)) exp.push_back(he);
      C01_CMP("bhe_iter", "", collect_valid(m.bhe_iter()), exp);
      exp.clear();
      for (int e = 0; e < ne; ++e) if (bf.e_live[(size_t)e] && he_bnd(2 * e)) exp.push_back(e);
      C01_CMP("be_iter", "", collect_valid(m.be_iter()), exp);
      if (vbu) {
        exp.clear();
        for (int v = 0; v < nv; ++v) if (bf.v_live[(size_t)v] && v_bnd(v)) exp.push_back(v);
        C01_CMP("bv_iter", "", collect_valid(m.bv_iter()), exp);
      }
    }
  }
  return "";
}

}  // namespace vf
