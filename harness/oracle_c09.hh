// C09: rotational order of halffaces around single-fan edges; adjacent_halfface_in_cell in closed cells.
#pragma once
#include "oracle_c01.hh"
#include <map>

namespace vf {

struct C09Ctx {
  uint64_t edges = 0, single_fan = 0, single_fan_val3 = 0, rings = 0, open_fans = 0, not_single_fan = 0, adj_checked = 0, adj_ambiguous = 0,
           closed_cells = 0, open_cells = 0, self_adjacent_cells = 0;
};

template <class M> std::string c09_sweep(const M &m, C09Ctx &cx) {
  BruteForce bf;
  bf.build(m);
  if (bf.two_cells_on_halfface) return "";
  std::ostringstream o;
  const int ne = (int)m.n_edges(), nc = (int)m.n_cells();
  auto hf_hes = [&](int hf) {
    std::vector<int> r;
    const auto &l = m.face(FaceHandle(hf / 2)).halfedges();
    if (!(hf & 1)) for (auto h : l) r.push_back(h.idx());
    else for (auto it = l.rbegin(); it != l.rend(); ++it) r.push_back(it->idx() ^ 1);
    return r;
  };
  auto contains = [&](int hf, int he) { auto l = hf_hes(hf); return std::count(l.begin(), l.end(), he); };
  // brute-force neighbour of hf across halfedge he inside its cell: the unique other halfface g (not hf, not opp hf)
  // of the cell that contains opp(he); -1 if none, -2 if ambiguous
  auto neighbour = [&](int hf, int he) {
    int c = bf.cell_of[(size_t)hf];
    if (c < 0) return -1;
    int found = -1;
    for (auto g : m.cell(CellHandle(c)).halffaces()) {
      if (g.idx() == hf || g.idx() == (hf ^ 1)) continue;
      long k = contains(g.idx(), he ^ 1);
      if (k > 1) return -2;
      if (k == 1) { if (found >= 0) return -2; found = g.idx(); }
    }
    return found;
  };

  if (m.has_edge_bottom_up_incidences() && m.has_face_bottom_up_incidences())
    for (int e = 0; e < ne; ++e) {
      if (!bf.e_live[(size_t)e]) continue;
      ++cx.edges;
      const int he0 = 2 * e, he1 = 2 * e + 1;
      std::vector<int> L0 = bf.hfs[(size_t)he0];
      // classification as a single fan, from the definitions only
      bool ok = !L0.empty();
      std::vector<int> faces;
      for (int hf : L0) faces.push_back(hf / 2);
      if (uniq(faces).size() != faces.size()) ok = false;  // some face uses the edge more than once
      for (int hf : L0) if (contains(hf, he0) != 1 || contains(hf, he1) != 0) ok = false;
      std::map<int, int> succ;
      std::set<int> has_pred;
      for (size_t i = 0; i < L0.size() && ok; ++i) {
        int hf = L0[i], c = bf.cell_of[(size_t)hf];
        if (c < 0) continue;
        // the cell must have exactly two halffaces at this edge
        int at_edge = 0;
        for (auto g : m.cell(CellHandle(c)).halffaces()) if (contains(g.idx(), he0) + contains(g.idx(), he1) > 0) ++at_edge;
        if (at_edge != 2) { ok = false; break; }
        int g = neighbour(hf, he0);
        if (g < 0 || std::find(L0.begin(), L0.end(), g ^ 1) == L0.end()) { ok = false; break; }
        succ[hf] = g ^ 1;
        if (!has_pred.insert(g ^ 1).second) ok = false;
      }
      // also the opposite sides: a halfface whose opposite has a cell is somebody's successor
      for (int hf : L0) if (ok && bf.cell_of[(size_t)(hf ^ 1)] >= 0 && !has_pred.count(hf)) ok = false;
      std::vector<int> chain;
      if (ok) {
        size_t nb = 0;
        for (int hf : L0) if (bf.cell_of[(size_t)hf] < 0) ++nb;
        int start = -1;
        if (nb == 0) start = L0[0];
        else if (nb == 1) { for (int hf : L0) if (!has_pred.count(hf)) start = hf; if (start < 0) ok = false; }
        else ok = false;
        if (ok) {
          int cur = start;
          while (chain.size() <= L0.size()) {
            chain.push_back(cur);
            auto it = succ.find(cur);
            if (it == succ.end()) break;
            cur = it->second;
            if (cur == start) break;
          }
          if (chain.size() != L0.size()) ok = false;  // several fans
        }
      }
      if (!ok) { ++cx.not_single_fan; continue; }
      ++cx.single_fan;
      if (L0.size() >= 3) ++cx.single_fan_val3;
      if (succ.size() == L0.size()) ++cx.rings; else ++cx.open_fans;
      // reported order
      auto R0 = collect(m.halfedge_halffaces(HalfEdgeHandle(he0))), R1 = collect(m.halfedge_halffaces(HalfEdgeHandle(he1)));
      size_t n = R0.size();
      if (sorted(R0) != sorted(L0)) continue;  // C01's business
      for (size_t i = 0; i < n; ++i) {
        int hf = R0[i];
        if (bf.cell_of[(size_t)hf] < 0) {
          if (i + 1 != n) { o << "halfedge_halffaces(" << he0 << ") = " << vec_str(R0) << ": boundary halfface " << hf << " is not last (single-fan edge " << e << ")"; return o.str(); }
        } else if (R0[(i + 1) % n] != succ[hf]) {
          o << "halfedge_halffaces(" << he0 << ") = " << vec_str(R0) << ": halfface " << hf << " must be followed by " << succ[hf]
            << " (opposite of its neighbour across edge " << e << " in cell " << bf.cell_of[(size_t)hf] << ")";
          return o.str();
        }
      }
      std::vector<int> mir;
      for (auto it = R0.rbegin(); it != R0.rend(); ++it) mir.push_back(*it ^ 1);
      if (R1 != mir) { o << "halfedge_halffaces(" << he1 << ") = " << vec_str(R1) << " is not the mirrored reverse of halfedge_halffaces(" << he0 << ") = " << vec_str(R0); return o.str(); }
      for (int s = 0; s < 2; ++s) {
        const auto &R = s ? R1 : R0;
        std::vector<int> cells;
        for (int hf : R) { int c = bf.cell_of[(size_t)hf]; if (c >= 0 && std::find(cells.begin(), cells.end(), c) == cells.end()) cells.push_back(c); }
        auto hc = collect(m.halfedge_cells(HalfEdgeHandle(s ? he1 : he0)));
        if (hc != cells) { o << "halfedge_cells(" << (s ? he1 : he0) << ") = " << vec_str(hc) << " does not follow the halfface order " << vec_str(cells); return o.str(); }
        if (!s && collect(m.edge_cells(EdgeHandle(e))) != cells) { o << "edge_cells(" << e << ") does not follow the halfface order " << vec_str(cells); return o.str(); }
      }
    }

  if (m.has_face_bottom_up_incidences())
    for (int c = 0; c < nc; ++c) {
      if (!bf.c_live[(size_t)c]) continue;
      // closed surface: every halfedge once and its opposite once
      std::map<int, int> cnt;
      bool self_adj = false;
      auto chf = m.cell(CellHandle(c)).halffaces();
      for (auto hf : chf) {
        for (int he : hf_hes(hf.idx())) cnt[he]++;
        for (auto g : chf) if (g.idx() == (hf.idx() ^ 1)) self_adj = true;
      }
      bool closed = !chf.empty();
      for (auto &kv : cnt) if (kv.second != 1 || !cnt.count(kv.first ^ 1) || cnt[kv.first ^ 1] != 1) closed = false;
      for (auto hf : chf) if (bf.cell_of[(size_t)hf.idx()] != c) closed = false;  // incidence must point back (C01)
      if (!closed) { ++cx.open_cells; continue; }
      ++cx.closed_cells;
      if (self_adj) ++cx.self_adjacent_cells;
      for (auto hf : chf) {
        for (int he : hf_hes(hf.idx())) {
          int g = neighbour(hf.idx(), he);
          if (g < 0) { ++cx.adj_ambiguous; continue; }
          ++cx.adj_checked;
          int got = m.adjacent_halfface_in_cell(hf, HalfEdgeHandle(he)).idx();
          if (got != g) { o << "adjacent_halfface_in_cell(" << hf.idx() << "," << he << ") = " << got << ", the unique other halfface of cell " << c << " at that edge is " << g; return o.str(); }
          if (contains(hf.idx(), he ^ 1) == 0) {
            int got2 = m.adjacent_halfface_in_cell(hf, HalfEdgeHandle(he ^ 1)).idx();
            if (got2 != g) { o << "adjacent_halfface_in_cell(" << hf.idx() << "," << (he ^ 1) << ") (flipped halfedge, unambiguous) = " << got2 << ", expected " << g; return o.str(); }
          }
          if (neighbour(g, he ^ 1) == hf.idx()) {
            int back = m.adjacent_halfface_in_cell(HalfFaceHandle(g), HalfEdgeHandle(he ^ 1)).idx();
            if (back != hf.idx()) { o << "adjacent_halfface_in_cell applied twice: (" << hf.idx() << "," << he << ") -> " << g << " -> " << back << ", expected back at " << hf.idx(); return o.str(); }
          }
        }
      }
    }
  return "";
}

}  // namespace vf
