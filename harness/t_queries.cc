// Target for the per-state query properties C05, C08 (part 2), C09, C10, C11.
#include "interp.hh"
#include "oracle_c01.hh"
#include "oracle_c05.hh"
#include "oracle_c08.hh"
#include "oracle_c09.hh"
#include "oracle_c10.hh"
#include "props.hh"
#include "snap.hh"
#include "rcmain.hh"

using namespace vf;

namespace target {

const std::vector<OpInfo> &optable() { return poly_optable(); }

std::vector<std::pair<int, int>> weights(const std::string &id) {
  std::vector<std::pair<int, int>> w = {
      {5, O_ADD_VERTEX}, {2, O_ADD_N_VERTICES}, {5, O_ADD_EDGE}, {8, O_ADD_FACE_V}, {5, O_ADD_FACE_HE},
      {14, O_ADD_CELL_TPL}, {10, O_ADD_CONE}, {4, O_ADD_RING},
      {2, O_SET_EDGE}, {2, O_SET_FACE}, {2, O_SET_CELL},
      {3, O_DEL_V}, {4, O_DEL_E}, {5, O_DEL_F}, {5, O_DEL_C},
      {2, O_SWAP_V}, {2, O_SWAP_E}, {2, O_SWAP_F}, {2, O_SWAP_C},
      {3, O_GC}, {1, O_CLEAR}, {1, O_EN_VBU}, {1, O_EN_EBU}, {1, O_EN_FBU}, {3, O_EN_DEFERRED}, {3, O_EN_FAST},
      {6, O_QUERY}};
  auto add = [&](int wt, int code) { w.emplace_back(wt, code); };
  auto setw = [&](int code, int wt) { for (auto &x : w) if (x.second == code) x.first = wt; };
  if (id == "C09") { setw(O_ADD_RING, 10); setw(O_SET_EDGE, 0); setw(O_SET_FACE, 0); setw(O_SET_CELL, 0); setw(O_CLEAR, 0); setw(O_ADD_FACE_V, 3); setw(O_ADD_FACE_HE, 2); }
  if (id == "C08") { add(8, O_TRY_FACE); setw(O_SET_EDGE, 0); setw(O_SET_FACE, 0); setw(O_SET_CELL, 0); }
  if (id == "C10") { setw(O_EN_VBU, 3); setw(O_EN_EBU, 2); setw(O_EN_FBU, 2); setw(O_SET_EDGE, 3); setw(O_SET_FACE, 0); setw(O_SET_CELL, 0); setw(O_QUERY, 3); }
  if (id == "C11") { add(14, O_TRY_FACE); add(14, O_TRY_CELL); setw(O_QUERY, 0); setw(O_ADD_EDGE, 10); setw(O_EN_VBU, 3); add(4, O_PROP_CREATE); add(4, O_PROP_WRITE); }
  return w;
}

static std::string oneline(std::string s) {
  for (auto &c : s) if (c == '\n' || c == '\r') c = ' ';
  return s;
}

vf::CaseResult run_case(const std::string &id, const Program &prog, Stats &st) {
  CaseResult res;
  Interp I;
  I.st = &st;
  Sut &S = I.add_sut("mesh");
  if (!prog.empty()) {
    int m = prog[0].a[4];
    S.mesh.enable_deferred_deletion((m & 1) != 0);
    S.mesh.enable_fast_deletion((m & 2) != 0);
    S.deferred = (m & 1) != 0;
    S.fast = (m & 2) != 0;
  }
  if (id == "C08" || id == "C09") I.allow_set = false;  // C10: set_edge only (weights), states "reachable as in C01"
  if (id == "C10") I.allow_selfloop = false;
  if (id == "C09") I.allow_membrane = true;  // closed cells containing both halffaces of a face are in C09's quantifier
  PropBank bank(I);
  C05Ctx c05;
  C08Ctx c08;
  C09Ctx c09;
  C10Ctx c10;
  uint64_t sweeps = 0, sweeps_discarded = 0, rejects_checked = 0, accepts_checked = 0;
  RawSnap before;
  bool have_before = false;
  bool model_left = false;

  auto sweep = [&](const Op *q) -> bool {
    ++sweeps;
    if (id == "C05" || id == "C09" || id == "C10") {
      // the brute-force oracles of these properties are independent of the incidence caches; a state in which the C01
      // oracle fails is still judged (a stale cache usually breaks these properties as well), it is only counted
      C01Counters tmp;
      if (!c01_check(S.mesh, tmp).empty()) ++sweeps_discarded;
    }
    std::string m;
    if (id == "C05") {
      c05.walk.clear();
      static const int dflt[5] = {0xb7, 0x6d, 0xff, 0x3b, 0xee};
      for (int k = 0; k < 5; ++k) {
        int v = q ? q->a[k] : dflt[k];
        for (int b = 0; b < 8; ++b) { if ((v >> b) & 1) { c05.walk.push_back(1); c05.walk.push_back(1); } else c05.walk.push_back(-1); }
      }
      m = c05_sweep(S.mesh, c05);
    } else if (id == "C08") {
      std::vector<char> checked(S.mesh.n_faces(), 0);
      for (size_t f = 0; f < S.lay.uid_at[KF].size(); ++f) {
        int u = S.lay.uid_at[KF][f];
        checked[f] = I.L.alive(KF, u) && (size_t)u < I.checked_face.size() && I.checked_face[(size_t)u];
      }
      // set_* is disabled in this target and every generated loop is closed, so after the reference model was left
      // (layout unknown) every live face still counts as "built from a vertex list or accepted with topology check"
      if (model_left || S.lay.uid_at[KF].size() != S.mesh.n_faces()) checked.assign(S.mesh.n_faces(), 1);
      m = c08_sweep(S.mesh, checked, c08);
    } else if (id == "C09") {
      m = c09_sweep(S.mesh, c09);
    } else if (id == "C10") {
      // lookups need all bottom-up incidences: re-enable whatever the history switched off (itself a history step)
      if (!model_left) {
        if (!S.vbu) I.prim_simple(P_EN_VBU, true, "enable_vertex_bottom_up_incidences");
        if (!S.ebu) I.prim_simple(P_EN_EBU, true, "enable_edge_bottom_up_incidences");
        if (!S.fbu) I.prim_simple(P_EN_FBU, true, "enable_face_bottom_up_incidences");
        if (!I.fail.empty()) return false;
      }
      c10.salt = q ? q->a[0] % 16 : 0;
      m = c10_sweep(S.mesh, c10);
    }
    if (!m.empty()) { I.set_fail(id, m); return false; }
    return true;
  };

  I.before_step = [&](const Prim &p) {
    have_before = false;
    if (id == "C11" && (p.t == P_ADD_FACE_HE || p.t == P_ADD_CELL || p.t == P_ADD_EDGE || p.t == P_ADD_FACE_V)) {
      before = take_snap(S.mesh, &bank, 0);
      have_before = true;
    }
  };
  I.on_step = [&](const Prim &p) {
    if (p.t == P_CLEAR) bank.on_clear();
    if (id == "C11" && have_before) {
      RawSnap now = take_snap(S.mesh, &bank, 0);
      bool unchanged_expected = p.expect_reject || (p.t == P_ADD_EDGE && p.expect_existing >= 0);
      if (unchanged_expected) {
        ++rejects_checked;
        std::string d = snap_diff(before, now, true);
        if (!d.empty()) { I.set_fail("C11", "after " + p.render + " the mesh changed although the call was rejected / deduplicated: " + d); return false; }
      } else {
        ++accepts_checked;
        // everything that existed before is unchanged (handle-exact); the new entities are checked against the model by verify()
        RawSnap cut = now;
        cut.vflag.resize(before.vflag.size()); cut.eflag.resize(before.eflag.size()); cut.fflag.resize(before.fflag.size()); cut.cflag.resize(before.cflag.size());
        cut.edef.resize(before.edef.size()); cut.fdef.resize(before.fdef.size()); cut.cdef.resize(before.cdef.size());
        cut.positions.resize(before.positions.size());
        RawSnap b2 = before;
        // incidence lists legitimately grow; property arrays grow by default-valued slots: compare the old prefix only
        cut.out.clear(); cut.hehf.clear(); cut.ic.clear(); b2.out.clear(); b2.hehf.clear(); b2.ic.clear();
        for (size_t i = 0; i < cut.props.size() && i < b2.props.size(); ++i) if (cut.props[i].size() >= b2.props[i].size()) cut.props[i].resize(b2.props[i].size());
        std::string d = snap_diff(b2, cut, true);
        if (!d.empty()) { I.set_fail("C11", "after " + p.render + " something other than the appended entity changed: " + d); return false; }
        std::string pm = bank.check(S, 0);
        if (!pm.empty()) { I.set_fail("C03", pm); return false; }
      }
    }
    return true;
  };

  for (size_t i = 0; i < prog.size(); ++i) {
    const Op &op = prog[i];
    bool cont = true;
    if (op.code == O_QUERY) {
      cont = sweep(&op);
      res.annot.push_back("query sweep");
    } else if (op.code == O_PROP_CREATE || op.code == O_PROP_WRITE) {
      std::string annot;
      if (id == "C11") {
        if (op.code == O_PROP_CREATE) cont = bank.create(op.a[0] % PK_COUNT, op.a[1] % PT_COUNT, op.a[2] % 3, op.a[3] % 5, annot);
        else cont = bank.write(op.a[0], op.a[1], 1 + op.a[2] % 9, annot);
      }
      res.annot.push_back(annot);
    } else {
      cont = I.run_op(op);
      res.annot.push_back(I.cur_annot);
    }
    st.count(std::string("op:") + optable()[(size_t)op.code].name);
    if (!cont || !I.fail.empty()) break;
  }
  if (I.fail.empty() && id != "C11") sweep(nullptr);
  else if (!I.fail.empty() && I.fail_owner != id && id != "C11") {
    // the history left the reference model (another property's business). The sweeps are model-free, so the
    // reached mesh state is still judged by this property's own oracle.
    std::string keep_fail = I.fail, keep_owner = I.fail_owner;
    I.fail.clear(); I.fail_owner.clear();
    st.count("sweeps_after_model_mismatch");
    model_left = true;
    sweep(nullptr);
    if (I.fail.empty() || I.fail_owner != id) { I.fail = keep_fail; I.fail_owner = keep_owner; }
  }

  st.count("sweeps", sweeps);
  st.count("sweeps_on_states_failing_the_C01_oracle", sweeps_discarded);
  if (id == "C05") {
    st.count("circulators_checked", c05.circulators); st.count("circulators_nonempty", c05.nonempty); st.count("circulators_empty_centre", c05.empty_centres);
    st.count("circulators_nontrivial", c05.nontrivial); st.count("entity_iterator_checks", c05.iter_checks);
    res.nontrivial = c05.nontrivial > 0;
  } else if (id == "C08") {
    st.count("edges_checked", c08.edges); st.count("faces_checked", c08.faces); st.count("closed_loop_faces_checked", c08.closed_checked);
    st.count("selfloop_edges", c08.selfloops); st.count("backward_circulator_walks", c08.backward_walks); st.count("nextprev_skipped_halfedge_twice", c08.nextprev_skipped);
    for (int k = 1; k <= 8; ++k) st.count("face_valence_" + std::to_string(k) + (k == 8 ? "+" : ""), c08.faces_valence[k]);
    res.nontrivial = c08.closed_checked > 0 && c08.faces_valence[3] + c08.faces_valence[4] > 0;
  } else if (id == "C09") {
    st.count("edges_seen", c09.edges); st.count("single_fan_edges", c09.single_fan); st.count("single_fan_valence>=3", c09.single_fan_val3);
    st.count("closed_rings", c09.rings); st.count("open_fans", c09.open_fans); st.count("edges_not_single_fan_skipped", c09.not_single_fan);
    st.count("adjacent_halfface_checks", c09.adj_checked); st.count("adjacent_ambiguous_skipped", c09.adj_ambiguous);
    st.count("closed_cells", c09.closed_cells); st.count("self_adjacent_closed_cells", c09.self_adjacent_cells); st.count("non_closed_cells_skipped", c09.open_cells);
    res.nontrivial = c09.single_fan_val3 > 0 && c09.adj_checked > 0;
  } else if (id == "C10") {
    st.count("lookup_queries", c10.queries); st.count("lookups_positive", c10.positive); st.count("lookups_negative", c10.negative);
    st.count("skipped_parallel_edges", c10.skipped_parallel); st.count("sweeps_skipped_nonsimple_face", c10.skipped_nonsimple);
    res.nontrivial = c10.positive > 20 && c10.negative > 20;
  } else if (id == "C11") {
    st.count("rejected_or_deduplicated_calls_checked", rejects_checked); st.count("accepted_calls_checked", accepts_checked);
    res.nontrivial = rejects_checked > 0 && accepts_checked > 0;
  }
  if (!I.fail.empty()) {
    if (I.fail_owner == id) { res.ok = false; res.msg = oneline(I.fail); }
    else {
      st.count("discarded_prereq_" + I.fail_owner);
      if (getenv("VF_DEBUG_DISCARD")) std::cerr << "DISCARD[" << I.fail_owner << "] " << I.fail << "\n";
    }
  }
  return res;
}

}  // namespace target

VF_DEFINE_MAIN
