// C08 part 2: opposite half-entities are mirror images; checked faces are closed loops; the two
// sides of a face enumerate the same cycle in opposite directions; next/prev are inverse steps.
#pragma once
#include "oracle_c01.hh"

namespace vf {

struct C08Ctx {
  uint64_t edges = 0, faces = 0, closed_checked = 0, faces_valence[9] = {0, 0, 0, 0, 0, 0, 0, 0, 0}, nextprev_skipped = 0, selfloops = 0, backward_walks = 0;
};

// checked_face[f] (by handle): face built from a vertex list or accepted with topology check, unmodified since
template <class M> std::string c08_sweep(const M &m, const std::vector<char> &checked_face, C08Ctx &cx) {
  std::ostringstream o;
  for (auto eh : m.edges()) {
    ++cx.edges;
    for (int s = 0; s < 2; ++s) {
      HalfEdgeHandle h = m.halfedge_handle(eh, (unsigned char)s), ho = m.opposite_halfedge_handle(h);
      auto a = m.halfedge(h), b = m.halfedge(ho), c = m.opposite_halfedge(h);
      if (a.from_vertex() != b.to_vertex() || a.to_vertex() != b.from_vertex()) { o << "halfedge(" << ho.idx() << ") does not swap source and target of halfedge(" << h.idx() << ")"; return o.str(); }
      if (c.from_vertex() != b.from_vertex() || c.to_vertex() != b.to_vertex()) { o << "opposite_halfedge(" << h.idx() << ") != halfedge(" << ho.idx() << ")"; return o.str(); }
      if (m.opposite_halfedge_handle(ho) != h || h.opposite_handle() != ho || m.edge_handle(h) != eh || h.edge_handle() != eh || h.subidx() != s ||
          eh.halfedge_handle(s) != h) { o << "halfedge handle conversions inconsistent for halfedge " << h.idx(); return o.str(); }
      if (m.from_vertex_handle(h) != a.from_vertex() || m.to_vertex_handle(h) != a.to_vertex()) { o << "from/to_vertex_handle(" << h.idx() << ") disagree with halfedge()"; return o.str(); }
      auto hv = m.halfedge_vertices(h);
      if (hv[0] != a.from_vertex() || hv[1] != a.to_vertex()) { o << "halfedge_vertices(" << h.idx() << ") wrong"; return o.str(); }
    }
    if (m.edge(eh).from_vertex() == m.edge(eh).to_vertex()) ++cx.selfloops;
    auto ev = m.edge_vertices(eh);
    auto ehs = m.edge_halfedges(eh);
    if (ev[0] != m.edge(eh).from_vertex() || ev[1] != m.edge(eh).to_vertex() || ehs[0].idx() != 2 * eh.idx() || ehs[1].idx() != 2 * eh.idx() + 1) {
      o << "edge_vertices/edge_halfedges(" << eh.idx() << ") wrong"; return o.str(); }
  }
  for (auto fh : m.faces()) {
    ++cx.faces;
    HalfFaceHandle h0 = m.halfface_handle(fh, 0), h1 = m.halfface_handle(fh, 1);
    auto l0 = m.halfface(h0).halfedges(), l1 = m.halfface(h1).halfedges();
    size_t n = l0.size();
    ++cx.faces_valence[std::min<size_t>(n, 8)];
    if (l0 != m.face(fh).halfedges()) { o << "halfface(side 0 of face " << fh.idx() << ") differs from face()"; return o.str(); }
    if (l1.size() != n) { o << "opposite halfface of face " << fh.idx() << " has different valence"; return o.str(); }
    for (size_t i = 0; i < n; ++i)
      if (l1[i] != m.opposite_halfedge_handle(l0[n - 1 - i])) { o << "halfface(" << h1.idx() << ") is not the reversed list of opposite halfedges of halfface(" << h0.idx() << ")"; return o.str(); }
    if (m.opposite_halfface(h0).halfedges() != l1 || m.opposite_halfface(h1).halfedges() != l0) { o << "opposite_halfface() disagrees with halfface(opposite handle) for face " << fh.idx(); return o.str(); }
    if (m.opposite_halfface(m.opposite_halfface(m.halfface(h0))).halfedges() != l0) { o << "opposite_halfface twice is not the identity on face " << fh.idx(); return o.str(); }
    if (m.opposite_halfface_handle(h0) != h1 || m.opposite_halfface_handle(h1) != h0 || h0.opposite_handle() != h1 || m.face_handle(h1) != fh ||
        h1.face_handle() != fh || h1.subidx() != 1 || fh.halfface_handle(1) != h1) { o << "halfface handle conversions inconsistent for face " << fh.idx(); return o.str(); }
    auto fhs = m.face_halffaces(fh);
    if (fhs[0] != h0 || fhs[1] != h1) { o << "face_halffaces(" << fh.idx() << ") wrong"; return o.str(); }
    if (m.valence(fh) != n) { o << "valence(FH " << fh.idx() << ") = " << m.valence(fh) << " != " << n; return o.str(); }
    // circulators of the two sides
    auto v0 = collect(m.halfface_vertices(h0)), v1 = collect(m.halfface_vertices(h1));
    auto e0 = collect(m.halfface_halfedges(h0)), e1 = collect(m.halfface_halfedges(h1));
    auto d0 = collect(m.halfface_edges(h0)), d1 = collect(m.halfface_edges(h1));
    if (collect(m.face_vertices(fh)) != v0 || collect(m.face_halfedges(fh)) != e0 || collect(m.face_edges(fh)) != d0) { o << "face_* circulators disagree with the side-0 halfface circulators on face " << fh.idx(); return o.str(); }
    { std::vector<int> r; for (auto it = e0.rbegin(); it != e0.rend(); ++it) r.push_back(*it ^ 1);
      if (r != e1) { o << "halfface_halfedges of the two sides of face " << fh.idx() << " are not mirrored: " << vec_str(e0) << " vs " << vec_str(e1); return o.str(); } }
    { std::vector<int> r(d0.rbegin(), d0.rend());
      if (r != d1) { o << "halfface_edges of the two sides of face " << fh.idx() << " are not reversed"; return o.str(); } }
    // the same cycle walked backwards: step forward one lap (max_laps = 2), then n times back with operator--
    if (n > 0) {
      auto back = [&](auto it) {
        std::vector<int> r;
        for (size_t i = 0; i < n && it.valid(); ++i) ++it;
        for (size_t i = 0; i < n; ++i) { --it; if (!it.valid()) { r.push_back(-99); break; } r.push_back((*it).idx()); }
        return r;
      };
      auto rev = [](std::vector<int> v) { std::reverse(v.begin(), v.end()); return v; };
      ++cx.backward_walks;
      if (back(m.hfhe_iter(h0, 2)) != rev(e0) || back(m.hfhe_iter(h1, 2)) != rev(e1)) { o << "halfface_halfedges circulator of face " << fh.idx() << " walked backwards is not the reverse of the forward walk " << vec_str(e0) << ": " << vec_str(back(m.hfhe_iter(h0, 2))) << " / " << vec_str(back(m.hfhe_iter(h1, 2))); return o.str(); }
      if (back(m.hfv_iter(h0, 2)) != rev(v0) || back(m.hfv_iter(h1, 2)) != rev(v1)) { o << "halfface_vertices circulator of face " << fh.idx() << " walked backwards is not the reverse of the forward walk"; return o.str(); }
      if (back(m.hfe_iter(h0, 2)) != rev(d0) || back(m.hfe_iter(h1, 2)) != rev(d1)) { o << "halfface_edges circulator of face " << fh.idx() << " walked backwards is not the reverse of the forward walk"; return o.str(); }
      if (back(m.fhe_iter(fh, 2)) != rev(e0) || back(m.fv_iter(fh, 2)) != rev(v0) || back(m.fe_iter(fh, 2)) != rev(d0)) { o << "face_* circulators of face " << fh.idx() << " walked backwards are not the reverse of the forward walk"; return o.str(); }
    }
    bool checked = (size_t)fh.idx() < checked_face.size() && checked_face[(size_t)fh.idx()];
    if (checked) {
      ++cx.closed_checked;
      for (size_t i = 0; i < n; ++i)
        if (m.to_vertex_handle(l0[i]) != m.from_vertex_handle(l0[(i + 1) % n])) { o << "face " << fh.idx() << " (built from vertices / accepted with topology check) is not a closed loop at position " << i; return o.str(); }
      std::vector<int> r(v1.rbegin(), v1.rend());
      if (!is_rotation(r, v0)) { o << "halfface_vertices of the two sides of face " << fh.idx() << " are not the same cycle in opposite directions: " << vec_str(v0) << " vs " << vec_str(v1); return o.str(); }
    }
    // next / prev inverse steps (faces using a halfedge twice are ambiguous: skipped, counted)
    for (int s = 0; s < 2; ++s) {
      HalfFaceHandle hf = s ? h1 : h0;
      const auto &l = s ? l1 : l0;
      bool twice = false;
      for (size_t i = 0; i < n; ++i) for (size_t j = i + 1; j < n; ++j) if (l[i] == l[j]) twice = true;
      if (twice) { ++cx.nextprev_skipped; continue; }
      for (size_t i = 0; i < n; ++i) {
        auto nx = m.next_halfedge_in_halfface(l[i], hf), pv = m.prev_halfedge_in_halfface(l[i], hf);
        if (nx != l[(i + 1) % n]) { o << "next_halfedge_in_halfface(" << l[i].idx() << "," << hf.idx() << ") = " << nx.idx() << ", expected " << l[(i + 1) % n].idx(); return o.str(); }
        if (pv != l[(i + n - 1) % n]) { o << "prev_halfedge_in_halfface(" << l[i].idx() << "," << hf.idx() << ") = " << pv.idx() << ", expected " << l[(i + n - 1) % n].idx(); return o.str(); }
        if (m.prev_halfedge_in_halfface(nx, hf) != l[i] || m.next_halfedge_in_halfface(pv, hf) != l[i]) { o << "next/prev_halfedge_in_halfface are not inverse at halfedge " << l[i].idx() << " of halfface " << hf.idx(); return o.str(); }
      }
    }
  }
  return "";
}

}  // namespace vf
