// Target for the kernel-history properties C01, C02, C03, C04, C12, C17 (oracle set chosen by id).
#include "interp.hh"
#include "oracle_c01.hh"
#include "oracle_c09.hh"
#include "props.hh"
#include "snap.hh"
#include "rcmain.hh"

using namespace vf;

namespace target {

const std::vector<OpInfo> &optable() { return poly_optable(); }

std::vector<std::pair<int, int>> weights(const std::string &id) {
  std::vector<std::pair<int, int>> w = {
      {6, O_ADD_VERTEX}, {2, O_ADD_N_VERTICES}, {6, O_ADD_EDGE}, {8, O_ADD_FACE_V}, {5, O_ADD_FACE_HE},
      {14, O_ADD_CELL_TPL}, {10, O_ADD_CONE},
      {2, O_SET_EDGE}, {2, O_SET_FACE}, {2, O_SET_CELL},
      {4, O_DEL_V}, {5, O_DEL_E}, {5, O_DEL_F}, {5, O_DEL_C},
      {3, O_SWAP_V}, {3, O_SWAP_E}, {3, O_SWAP_F}, {3, O_SWAP_C},
      {3, O_GC}, {1, O_CLEAR}, {2, O_RESERVE}, {2, O_EN_VBU}, {2, O_EN_EBU}, {2, O_EN_FBU}, {3, O_EN_DEFERRED}, {3, O_EN_FAST}};
  auto add = [&](int wt, int code) { w.emplace_back(wt, code); };
  auto setw = [&](int code, int wt) { for (auto &x : w) if (x.second == code) x.first = wt; };
  if (id == "C03" || id == "C04" || id == "C12" || id == "C17") { add(id == "C03" ? 16 : 9, O_PROP_CREATE); add(id == "C03" ? 18 : 12, O_PROP_WRITE); add(1, O_PROP_DROP); }
  if (id == "C04") { add(8, O_STATUS_MARK); add(6, O_STATUS_GC); setw(O_GC, 6); setw(O_EN_DEFERRED, 5); setw(O_CLEAR, 0); }
  if (id == "C12") { setw(O_EN_VBU, 5); setw(O_EN_EBU, 5); setw(O_EN_FBU, 5); add(2, O_STATUS_MARK); add(2, O_STATUS_GC); }
  if (id == "C17") { setw(O_SWAP_V, 8); setw(O_SWAP_E, 8); setw(O_SWAP_F, 8); setw(O_SWAP_C, 8); setw(O_CLEAR, 0); }
  return w;
}

static std::string oneline(std::string s) {
  for (auto &c : s) if (c == '\n' || c == '\r') c = ' ';
  return s;
}

// circulators that need a disabled bottom-up kind must be immediately invalid (C12)
static std::string invalid_circulators(const PolyMesh &m) {
  bool v = m.has_vertex_bottom_up_incidences(), e = m.has_edge_bottom_up_incidences(), f = m.has_face_bottom_up_incidences();
  std::ostringstream o;
#define MUST_INVALID(cond, expr, what)                                                                 \
  if (!(cond)) { if ((expr).valid()) { o << what << " is valid although a bottom-up kind it needs is disabled"; return o.str(); } }
  for (auto vh : m.vertices()) {
    MUST_INVALID(v, m.voh_iter(vh), "voh_iter");
    MUST_INVALID(v, m.vih_iter(vh), "vih_iter");
    MUST_INVALID(v, m.vv_iter(vh), "vv_iter");
    MUST_INVALID(v, m.ve_iter(vh), "ve_iter");
    MUST_INVALID(v && e, m.vhf_iter(vh), "vhf_iter");
    MUST_INVALID(v && e && f, m.vf_iter(vh), "vf_iter");
    MUST_INVALID(v && e && f, m.vc_iter(vh), "vc_iter");
  }
  for (auto heh : m.halfedges()) {
    MUST_INVALID(e, m.hehf_iter(heh), "hehf_iter");
    MUST_INVALID(e, m.hef_iter(heh), "hef_iter");
    MUST_INVALID(e && f, m.hec_iter(heh), "hec_iter");
  }
  for (auto eh : m.edges()) {
    MUST_INVALID(e, m.ehf_iter(eh), "ehf_iter");
    MUST_INVALID(e, m.ef_iter(eh), "ef_iter");
    MUST_INVALID(e && f, m.ec_iter(eh), "ec_iter");
  }
  for (auto ch : m.cells()) { MUST_INVALID(f, m.cc_iter(ch), "cc_iter"); }
  MUST_INVALID(v && e && f, m.bv_iter(), "bv_iter");
  MUST_INVALID(e && f, m.bhe_iter(), "bhe_iter");
  MUST_INVALID(e && f, m.be_iter(), "be_iter");
  MUST_INVALID(f, m.bhf_iter(), "bhf_iter");
  MUST_INVALID(f, m.bf_iter(), "bf_iter");
#undef MUST_INVALID
  return "";
}

vf::CaseResult run_case(const std::string &id, const Program &prog, Stats &st) {
  CaseResult res;
  Interp I;
  I.st = &st;
  const bool twin = (id == "C12");
  if (twin) { I.add_sut("all-enabled twin", false); I.twin_owner = "C12"; }
  Sut &S = I.add_sut("mesh");
  // initial deletion mode is part of the case: derived from the first op's last argument
  if (!prog.empty()) {
    int m = prog[0].a[4];
    for (auto &s : I.suts) {
      s->mesh.enable_deferred_deletion((m & 1) != 0);
      s->mesh.enable_fast_deletion((m & 2) != 0);
      s->deferred = (m & 1) != 0;
      s->fast = (m & 2) != 0;
    }
  }
  const bool use_props = (id == "C03" || id == "C04" || id == "C12" || id == "C17");
  PropBank bank(I);
  C01Counters c01;
  bool have_cell = false, mutated_after_cell = false, nonempty_after_mutation = false;
  bool nt = false;  // non-trivial by the id's rule
  // C04 / C17 pre-state
  bool pre_c01_ok = false, pre_pending = false;
  int pending_kinds = 0;
  RawSnap snap0, snap1;
  int swap_phase = 0;
  // C12
  bool op_while_disabled[3] = {false, false, false};
  bool set_seen = false;
  C09Ctx c09ctx;

  auto is_gc = [&](const Prim &p) { return p.t == P_GC || p.t == P_STATUS_GC || (p.t == P_EN_DEFERRED && !p.flag); };

  I.before_step = [&](const Prim &p) {
    if (id == "C04" && is_gc(p)) {
      C01Counters tmp;
      pre_c01_ok = c01_check(S.mesh, tmp).empty();
      pre_pending = I.has_pending(S) || (p.t == P_STATUS_GC && (!I.marks[0].empty() || !I.marks[1].empty() || !I.marks[2].empty() || !I.marks[3].empty()));
      pending_kinds = 0;
      for (int k = 0; k < 4; ++k) {
        bool any = !I.marks[k].empty();
        for (size_t i = 0; i + 1 < S.lay.uid_at[k].size(); ++i) if (!I.L.alive(k, S.lay.uid_at[k][i])) any = true;
        pending_kinds += any;
      }
    }
    if (id == "C17" && p.t == P_SWAP) {
      C01Counters tmp;
      pre_c01_ok = c01_check(S.mesh, tmp).empty();
      if (swap_phase == 0) snap0 = take_snap(S.mesh, &bank, 0);
      else snap1 = take_snap(S.mesh, &bank, 0);
    }
  };

  I.on_step = [&](const Prim &p) {
    if (p.t == P_CLEAR) bank.on_clear();
    if (p.t == P_ADD_CELL) have_cell = true;
    if (have_cell && (p.t == P_DELETE || p.t == P_SWAP || p.t == P_SET_EDGE || p.t == P_SET_FACE || p.t == P_SET_CELL ||
                      ((p.t == P_EN_VBU || p.t == P_EN_EBU || p.t == P_EN_FBU) && p.flag)))
      mutated_after_cell = true;
    if (p.t == P_DELETE) {
      std::string mode = std::string(S.deferred ? "deferred" : "immediate") + (S.fast ? "+fast" : "");
      st.count("delete_mode:" + mode);
    }
    if (p.t == P_GC) st.count("gc_calls");

    if (id == "C01") {
      uint64_t before = c01.nonempty_answers;
      std::string m = c01_check(S.mesh, c01);
      if (!m.empty()) { I.set_fail("C01", "after " + p.render + ": " + m); return false; }
      if (mutated_after_cell && c01.nonempty_answers > before) nonempty_after_mutation = true;
    } else if (id == "C02") {
      if (p.t == P_DELETE) {
        size_t closure = 1 + p.closure_e.size() + p.closure_f.size() + p.closure_c.size();
        bool higher = false;
        for (int k = p.kind + 1; k < 4; ++k) if (I.L.n_live(k) > 0) higher = true;
        if (closure >= 2) st.count("delete_with_closure>=2");
        if (closure >= 2 && higher) nt = true;
      }
    } else if (id == "C03") {
      std::string m = bank.check(S, 0);
      if (!m.empty()) { I.set_fail("C03", "after " + p.render + ": " + m); return false; }
      bool renumber = (p.t == P_SWAP) || (p.t == P_DELETE && !S.deferred) || p.t == P_GC || (p.t == P_EN_DEFERRED && !p.flag);
      if (renumber) {
        st.count("renumbering_ops_with_live_props", bank.slots.empty() ? 0 : 1);
        for (int k = 0; k < 4; ++k) if (bank.diverse_on(k)) { nt = true; break; }
      }
    } else if (id == "C04") {
      std::string m = bank.check(S, 0);
      if (!m.empty()) { I.set_fail(is_gc(p) ? "C04" : "C03", "after " + p.render + ": " + m); return false; }
      if (is_gc(p)) {
        if (S.mesh.needs_garbage_collection()) { I.set_fail("C04", "after " + p.render + ": needs_garbage_collection() still true"); return false; }
        if (pre_c01_ok) {
          C01Counters tmp;
          std::string m2 = c01_check(S.mesh, tmp);
          if (!m2.empty()) { I.set_fail("C04", "after " + p.render + ": " + m2); return false; }
        }
        if (pre_pending) st.count(p.t == P_STATUS_GC ? "status_gc_with_work" : "gc_with_pending");
        if (p.t == P_STATUS_GC && p.flag) st.count("status_gc_manifold");
        bool tracked_removed = false, tracked_survivor = false;
        if (p.t == P_STATUS_GC && p.n) {
          for (size_t i = 0; i < p.tr_v.size(); ++i) { if (p.tr_v[i] >= 0) (S.res_v[i].idx() < 0 ? tracked_removed : tracked_survivor) = true; }
          for (size_t i = 0; i < p.tr_c.size(); ++i) { if (p.tr_c[i] >= 0) (S.res_c[i].idx() < 0 ? tracked_removed : tracked_survivor) = true; }
          for (size_t i = 0; i < p.tr_he.size(); ++i) { if (p.tr_he[i].e >= 0) (S.res_he[i].idx() < 0 ? tracked_removed : tracked_survivor) = true; }
          for (size_t i = 0; i < p.tr_hf.size(); ++i) { if (p.tr_hf[i].f >= 0) (S.res_hf[i].idx() < 0 ? tracked_removed : tracked_survivor) = true; }
          if (tracked_removed) st.count("gc_with_tracked_handle_removed");
          if (tracked_survivor) st.count("gc_with_tracked_survivor");
        }
        if (pre_pending && pending_kinds >= 2 && (p.t != P_STATUS_GC || !p.n || (tracked_survivor && tracked_removed))) nt = true;
      }
    } else if (id == "C12") {
      for (size_t i = 0; i < I.suts.size(); ++i) {
        std::string m = bank.check(*I.suts[i], i);
        if (!m.empty()) { I.set_fail(i == 0 ? "C03" : "C12", "[" + I.suts[i]->name + "] after " + p.render + ": " + m); return false; }
      }
      C01Counters tmp;
      if (!c01_check(I.suts[0]->mesh, tmp).empty()) { I.set_fail("C01", "twin fails the incidence oracle"); return false; }
      std::string m = c01_check(S.mesh, c01);
      if (!m.empty()) { I.set_fail("C12", "after " + p.render + ": " + m); return false; }
      m = invalid_circulators(S.mesh);
      if (!m.empty()) { I.set_fail("C12", "after " + p.render + ": " + m); return false; }
      bool mut = p.t == P_DELETE || p.t == P_SWAP || p.t == P_GC || p.t == P_STATUS_GC || (p.t == P_EN_DEFERRED && !p.flag);
      if (mut) {
        if (!S.vbu) op_while_disabled[0] = true;
        if (!S.ebu) op_while_disabled[1] = true;
        if (!S.fbu) op_while_disabled[2] = true;
        if (!S.vbu || !S.ebu || !S.fbu) st.count(std::string("mutation_with_disabled_kind:") + (S.deferred ? "deferred" : "immediate") + (S.fast ? "+fast" : ""));
      }
      if (p.t == P_SET_FACE || p.t == P_SET_CELL || p.t == P_SET_EDGE) set_seen = true;
      // "re-enabling a kind yields exactly the incidences the mesh would have had": the order of the halffaces around
      // an edge is part of that; around single-fan edges it is determined (up to rotation) by the rotational-order
      // rule, which is checked here right after the edge or face kind comes back (set_* documents that it does not
      // reorder, histories containing it are not judged on order)
      if ((p.t == P_EN_EBU || p.t == P_EN_FBU) && p.flag && S.ebu && S.fbu && !set_seen) {
        m = c09_sweep(S.mesh, c09ctx);
        st.count("reenable_order_checks");
        if (!m.empty()) { I.set_fail("C12", "after " + p.render + ": order of the re-enabled incidences: " + m); return false; }
      }
      if ((p.t == P_EN_VBU && p.flag && op_while_disabled[0]) || (p.t == P_EN_EBU && p.flag && op_while_disabled[1]) ||
          (p.t == P_EN_FBU && p.flag && op_while_disabled[2])) { nt = true; st.count("reenable_after_mutation"); }
    } else if (id == "C17") {
      std::string m = bank.check(S, 0);
      if (!m.empty()) { I.set_fail(p.t == P_SWAP ? "C17" : "C03", "after " + p.render + ": " + m); return false; }
      if (p.t == P_SWAP) {
        RawSnap now = take_snap(S.mesh, &bank, 0);
        int h1 = S.lay.slot(p.kind, p.u2), h2 = S.lay.slot(p.kind, p.u);  // after the swap u sits where u2 was
        const RawSnap &before = swap_phase == 0 ? snap0 : snap1;
        RawSnap exp = relabel_snap(before, Relabel{p.kind, h1, h2});
        std::string d = snap_diff(exp, now, /*ordered*/ false);
        if (!d.empty()) { I.set_fail("C17", "after " + p.render + " (handles " + std::to_string(h1) + "<->" + std::to_string(h2) + "): " + d); return false; }
        if (pre_c01_ok) {
          C01Counters tmp;
          std::string m2 = c01_check(S.mesh, tmp);
          if (!m2.empty()) { I.set_fail("C17", "after " + p.render + ": " + m2); return false; }
        }
        if (swap_phase == 1) {
          std::string d2 = snap_diff(snap0, now, /*ordered*/ true);
          if (!d2.empty()) { I.set_fail("C17", "applying " + p.render + " twice does not restore the original state: " + d2); return false; }
        }
        st.count("swaps_checked");
        if (p.u != p.u2) {
          nt = true;
          if (!I.L.alive(p.kind, p.u) || !I.L.alive(p.kind, p.u2)) st.count("swaps_with_deleted_slot");
        } else st.count("self_swaps");
      }
    }
    return true;
  };

  for (size_t i = 0; i < prog.size(); ++i) {
    const Op &op = prog[i];
    bool cont = true;
    std::string annot;
    if (op.code == O_PROP_CREATE || op.code == O_PROP_WRITE || op.code == O_PROP_DROP) {
      if (use_props) {
        if (op.code == O_PROP_CREATE && op.a[4] % 5 == 0) cont = bank.create_attrib(op.a[1], op.a[0], annot);  // one in five: an attribute class instead of a bare property
        else if (op.code == O_PROP_CREATE) { static const int tmap[8] = {PT_INT, PT_BOOL, PT_DOUBLE, PT_STRING, PT_VEC3D, PT_BOOL, PT_BOOL, PT_INT}; cont = bank.create(op.a[0] % PK_COUNT, tmap[op.a[1] % 8], op.a[2] % 3, op.a[3] % 5, annot); }
        else if (op.code == O_PROP_WRITE) cont = bank.write(op.a[0], op.a[1], 1 + op.a[2] % 9, annot);
        else bank.drop(op.a[0], annot);
        if (cont)
          for (size_t k = 0; k < I.suts.size(); ++k) {
            std::string m = bank.check(*I.suts[k], k);
            if (!m.empty()) { I.set_fail((twin && k > 0) ? "C12" : "C03", "after " + annot + ": " + m); cont = false; break; }
          }
      }
      res.annot.push_back(annot);
    } else if (id == "C17" && op.code >= O_SWAP_V && op.code <= O_SWAP_C) {
      // swap, swap back (must restore the exact state), swap again (leave it applied)
      std::string all;
      for (swap_phase = 0; swap_phase < 3 && cont; ++swap_phase) {
        cont = I.run_op(op);
        all += (all.empty() ? "" : " | ") + I.cur_annot;
      }
      swap_phase = 0;
      res.annot.push_back(all);
    } else {
      cont = I.run_op(op);
      res.annot.push_back(I.cur_annot);
    }
    st.count(std::string("op:") + optable()[(size_t)op.code].name);
    if (!cont || !I.fail.empty()) break;
  }
  st.count("queries_checked", c01.queries);
  std::string bu = std::string(S.vbu ? "V" : "-") + (S.ebu ? "E" : "-") + (S.fbu ? "F" : "-");
  st.count("final_bottom_up:" + bu);
  if (!I.fail.empty()) {
    if (I.fail_owner == id) { res.ok = false; res.msg = oneline(I.fail); }
    else {
      st.count("discarded_prereq_" + I.fail_owner);
      if (getenv("VF_DEBUG_DISCARD")) std::cerr << "DISCARD[" << I.fail_owner << "] " << I.fail << "\n";
    }
  }
  if (id == "C01") res.nontrivial = have_cell && mutated_after_cell && nonempty_after_mutation;
  else res.nontrivial = nt;
  return res;
}

}  // namespace target

VF_DEFINE_MAIN
