// Target for the kernel-history properties C01, C02 (oracle chosen by id).
#include "interp.hh"
#include "oracle_c01.hh"
#include "rcmain.hh"

using namespace vf;

namespace target {

const std::vector<OpInfo> &optable() { return poly_optable(); }

std::vector<std::pair<int, int>> weights(const std::string &id) {
  std::vector<std::pair<int, int>> w = {
      {6, O_ADD_VERTEX}, {2, O_ADD_N_VERTICES}, {6, O_ADD_EDGE}, {8, O_ADD_FACE_V}, {5, O_ADD_FACE_HE},
      {14, O_ADD_CELL_TPL}, {10, O_ADD_CONE},
      {2, O_SET_EDGE}, {2, O_SET_FACE}, {2, O_SET_CELL},
      {4, O_DEL_V}, {5, O_DEL_E}, {5, O_DEL_F}, {5, O_DEL_C},
      {3, O_SWAP_V}, {3, O_SWAP_E}, {3, O_SWAP_F}, {3, O_SWAP_C},
      {3, O_GC}, {1, O_CLEAR}, {2, O_EN_VBU}, {2, O_EN_EBU}, {2, O_EN_FBU}, {3, O_EN_DEFERRED}, {3, O_EN_FAST}};
  (void)id;
  return w;
}

static std::string oneline(std::string s) {
  for (auto &c : s) if (c == '\n' || c == '\r') c = ' ';
  return s;
}

vf::CaseResult run_case(const std::string &id, const Program &prog, Stats &st) {
  CaseResult res;
  Interp I;
  I.st = &st;
  Sut &S = I.add_sut("mesh");
  // initial deletion mode is part of the case: derived from the first op's last argument
  if (!prog.empty()) {
    int m = prog[0].a[4];
    S.mesh.enable_deferred_deletion((m & 1) != 0);
    S.mesh.enable_fast_deletion((m & 2) != 0);
    S.deferred = (m & 1) != 0;
    S.fast = (m & 2) != 0;
  }
  C01Counters c01;
  bool have_cell = false, mutated_after_cell = false, nonempty_after_mutation = false;
  bool big_closure_delete = false;

  I.on_step = [&](const Prim &p) {
    if (id == "C01") {
      uint64_t before = c01.nonempty_answers;
      std::string m = c01_check(S.mesh, c01);
      if (!m.empty()) { I.set_fail("C01", "after " + p.render + ": " + m); return false; }
      if (mutated_after_cell && c01.nonempty_answers > before) nonempty_after_mutation = true;
    }
    if (p.t == P_ADD_CELL) have_cell = true;
    if (have_cell && (p.t == P_DELETE || p.t == P_SWAP || p.t == P_SET_EDGE || p.t == P_SET_FACE || p.t == P_SET_CELL ||
                      ((p.t == P_EN_VBU || p.t == P_EN_EBU || p.t == P_EN_FBU) && p.flag)))
      mutated_after_cell = true;
    if (p.t == P_DELETE) {
      std::string mode = std::string(S.deferred ? "deferred" : "immediate") + (S.fast ? "+fast" : "");
      st.count("delete_mode:" + mode);
      size_t closure = 1 + p.closure_e.size() + p.closure_f.size() + p.closure_c.size();
      if (closure >= 2) {
        st.count("delete_with_closure>=2");
        // survivor of a higher kind and victim not in the last slot
        bool higher = false;
        for (int k = p.kind + 1; k < 4; ++k) if (I.L.n_live(k) > 0) higher = true;
        if (higher) big_closure_delete = true;
      }
    }
    if (p.t == P_GC) st.count("gc_calls");
    return true;
  };

  for (size_t i = 0; i < prog.size(); ++i) {
    bool cont = I.run_op(prog[i]);
    res.annot.push_back(I.cur_annot);
    st.count(std::string("op:") + optable()[(size_t)prog[i].code].name);
    if (!cont) break;
  }
  st.count("steps_checked", c01.queries);
  std::string bu = std::string(S.vbu ? "V" : "-") + (S.ebu ? "E" : "-") + (S.fbu ? "F" : "-");
  st.count("final_bottom_up:" + bu);
  if (!I.fail.empty()) {
    if (I.fail_owner == id) { res.ok = false; res.msg = oneline(I.fail); }
    else {
      st.count("discarded_prereq_" + I.fail_owner);
      if (getenv("VF_DEBUG_DISCARD")) std::cerr << "DISCARD[" << I.fail_owner << "] " << I.fail << "\n";
    }
  }
  if (id == "C01") res.nontrivial = have_cell && mutated_after_cell && nonempty_after_mutation;
  else if (id == "C02") res.nontrivial = big_closure_delete;
  return res;
}

}  // namespace target

int main(int argc, char **argv) { return vf::generic_main(argc, argv); }
