// C06, OVM-ASCII part: typed persistent properties over every value type in the ASCII typeName list, an independent
// reference reader of the text format (written from documentation/subpages/ascii_file_format.docu and the shipped
// example Cube_with_props.ovm; C stdio number parsing, no library code), and mesh comparison "to printed precision".
#pragma once
#include "common.hh"
#include <OpenVolumeMesh/Mesh/HexahedralMesh.hh>
#include <OpenVolumeMesh/Mesh/PolyhedralMesh.hh>
#include <OpenVolumeMesh/Mesh/TetrahedralMesh.hh>
#include <cfloat>
#include <climits>
#include <cmath>
#include <functional>
#include <map>
#include <sstream>

namespace vfa {
using namespace OpenVolumeMesh;
using namespace OpenVolumeMesh::Geometry;

// values the text format cannot carry (recorded as known findings / documented domain limits) are excluded by
// construction; every exclusion is counted
struct Excl { uint64_t char_ws = 0, nonfinite = 0; };
inline Excl &excl() { static Excl e; return e; }

// VF_ASCII_PROBE=1 switches the exclusions off (used by the known-finding probes and for triage only)
inline bool probe_mode(const char *what) { const char *e = getenv("VF_ASCII_PROBE"); return e && strstr(e, what); }

inline std::string p6(double d) { char b[64]; snprintf(b, sizeof b, "%.6g", d); return b; }

// ---- cursor over the file bytes (may contain NUL) -----------------------------------------------------------------
struct Cur {
  const std::string &s;
  size_t p = 0;
  std::string err;
  explicit Cur(const std::string &str) : s(str) {}
  static bool ws(char c) { return c == ' ' || c == '\t' || c == '\n' || c == '\r' || c == '\v' || c == '\f'; }
  void skip() { while (p < s.size() && ws(s[p])) ++p; }
  bool eof() { skip(); return p >= s.size(); }
  std::string token() { skip(); size_t b = p; while (p < s.size() && !ws(s[p])) ++p; return s.substr(b, p - b); }
  std::string line() { size_t b = p; while (p < s.size() && s[p] != '\n') ++p; std::string l = s.substr(b, p - b); if (p < s.size()) ++p; return l; }
  bool fail(const std::string &m) { if (err.empty()) err = m + " at byte " + std::to_string(p); return false; }
  bool ll(long long &v) {
    std::string t = token();
    if (t.empty()) return fail("integer expected, end of file");
    char *e = nullptr; errno = 0;
    v = strtoll(t.c_str(), &e, 10);
    if (*e || errno) return fail("not an integer: '" + t + "'");
    return true;
  }
  bool ull(unsigned long long &v) {
    std::string t = token();
    if (t.empty() || t[0] == '-') return fail("unsigned integer expected: '" + t + "'");
    char *e = nullptr; errno = 0;
    v = strtoull(t.c_str(), &e, 10);
    if (*e || errno) return fail("not an unsigned integer: '" + t + "'");
    return true;
  }
  bool dbl(double &v) {
    std::string t = token();
    if (t.empty()) return fail("number expected, end of file");
    char *e = nullptr;
    v = strtod(t.c_str(), &e);
    if (*e) return fail("not a number: '" + t + "'");
    return true;
  }
};

// ---- per value type: generator (code -> value), canonical text "to printed precision", reference parser -----------
template <class T> struct AV;
#define SINT(T)                                                                                                        \
  template <> struct AV<T> {                                                                                           \
    static T gen(int c) { switch (c % 6) { case 0: return 0; case 1: return std::numeric_limits<T>::max(); case 2: return std::numeric_limits<T>::min(); \
                                           case 3: return (T)-1; default: return (T)((long long)c * 2654435761ll + 12345); } } \
    static std::string canon(const T &v) { return std::to_string((long long)v); }                                      \
    static bool parse(Cur &c, std::string &o) { long long v; if (!c.ll(v)) return false; if (v < (long long)std::numeric_limits<T>::min() || v > (long long)std::numeric_limits<T>::max()) return c.fail("out of range"); o = std::to_string(v); return true; } \
  };
#define UINT(T)                                                                                                        \
  template <> struct AV<T> {                                                                                           \
    static T gen(int c) { switch (c % 5) { case 0: return 0; case 1: return std::numeric_limits<T>::max(); case 2: return (T)1; default: return (T)((unsigned long long)c * 2654435761ull + 12345); } } \
    static std::string canon(const T &v) { return std::to_string((unsigned long long)v); }                             \
    static bool parse(Cur &c, std::string &o) { unsigned long long v; if (!c.ull(v)) return false; if (v > (unsigned long long)std::numeric_limits<T>::max()) return c.fail("out of range"); o = std::to_string(v); return true; } \
  };
SINT(int) SINT(short) SINT(long) UINT(unsigned int) UINT(unsigned long)
#undef SINT
#undef UINT
inline bool text_ws(int c) { return c == 9 || c == 10 || c == 11 || c == 12 || c == 13 || c == 32; }
#define CHARV(T)                                                                                                       \
  template <> struct AV<T> {                                                                                           \
    static T gen(int c) { int v = (c * 37 + c / 7) & 255; if (text_ws(v) && !probe_mode("charws")) { ++excl().char_ws; v = 'w'; } return (T)v; } \
    static std::string canon(const T &v) { return std::to_string((int)(unsigned char)v); }                             \
    static bool parse(Cur &c, std::string &o) { c.skip(); if (c.p >= c.s.size()) return c.fail("character expected"); o = std::to_string((int)(unsigned char)c.s[c.p++]); return true; } \
  };
CHARV(char) CHARV(unsigned char)
#undef CHARV
template <> struct AV<bool> {
  static bool gen(int c) { return (c * 7 + c / 3) & 1; }
  static std::string canon(const bool &v) { return v ? "1" : "0"; }
  static bool parse(Cur &c, std::string &o) { std::string t = c.token(); if (t != "0" && t != "1") return c.fail("bool expected: '" + t + "'"); o = t; return true; }
};
inline double finite_gen(int c) {
  if (c % 5 == 0) {
    static const bool nf = probe_mode("nonfinite"), ex = true;
    switch ((c / 5) % 6) {
    case 0: if (nf) return std::numeric_limits<double>::infinity(); ++excl().nonfinite; break;
    case 1: if (nf) return std::nan(""); ++excl().nonfinite; break;
    case 2: if (ex) return DBL_MAX; break;
    case 3: if (ex) return 4.9406564584124654e-324; break;
    case 4: if (ex) return DBL_MIN; break;
    default: if (ex) return -DBL_MAX; break;
    }
  }
  switch (c % 12) {
  case 0: return 0.0; case 1: return -0.0; case 2: return 1.0 / 3.0; case 3: return -2.25e10; case 4: return 1e-30; case 5: return 1e30;
  case 6: return 0.1 + 0.2; case 7: return 1234567.0; case 8: return -999999.5; case 9: return 123456.0; case 10: return 5e-5;
  default: return c * 0.37 - 5.5;
  }
}
template <> struct AV<double> {
  static double gen(int c) { return finite_gen(c); }
  static std::string canon(const double &v) { return p6(v); }
  static bool parse(Cur &c, std::string &o) { double v; if (!c.dbl(v)) return false; o = p6(v); return true; }
};
template <> struct AV<float> {
  static float gen(int c) { double d = finite_gen(c); if (std::isfinite(d) && std::fabs(d) > (double)FLT_MAX) d = std::copysign((double)FLT_MAX, d); return (float)d; }
  static std::string canon(const float &v) { return p6((double)v); }
  static bool parse(Cur &c, std::string &o) { double v; if (!c.dbl(v)) return false; o = p6((double)(float)v); return true; }
};
template <> struct AV<std::string> {
  static std::string gen(int c) {
    switch (c % 10) {
    case 0: return ""; case 1: return "a b"; case 2: return std::string("nul\0byte", 8); case 3: return std::string(300, 'x');
    case 4: return "\xc3\xa4\xe2\x82\xac\n\t\""; case 5: return " lead"; case 6: return "trail \n"; case 7: return "#no comment\nVProp int \"x\"\n1\n"; case 8: return "12:34";
    default: return "s" + std::to_string(c);
    }
  }
  static std::string canon(const std::string &v) { return std::to_string(v.size()) + ":" + v; }
  static bool parse(Cur &c, std::string &o) {
    unsigned long long n;
    // the length is followed directly by ':'
    c.skip();
    size_t b = c.p;
    while (c.p < c.s.size() && isdigit((unsigned char)c.s[c.p])) ++c.p;
    if (b == c.p) return c.fail("string length expected");
    n = strtoull(c.s.substr(b, c.p - b).c_str(), nullptr, 10);
    c.skip();
    if (c.p >= c.s.size() || c.s[c.p] != ':') return c.fail("':' expected after string length");
    ++c.p;
    if (c.p + n > c.s.size()) return c.fail("string longer than the rest of the file");
    o = std::to_string(n) + ":" + c.s.substr(c.p, n);
    c.p += n;
    return true;
  }
};
#define HANDLEV(H)                                                                                                     \
  template <> struct AV<H> {                                                                                           \
    static H gen(int c) { return H(c % 5 == 0 ? -1 : c % 5 == 1 ? 0 : c % 5 == 2 ? 0x7fffffff : c * 31); }             \
    static std::string canon(const H &v) { return std::to_string(v.idx()); }                                           \
    static bool parse(Cur &c, std::string &o) { return AV<int>::parse(c, o); }                                         \
  };
HANDLEV(VertexHandle) HANDLEV(HalfEdgeHandle) HANDLEV(HalfFaceHandle)
#undef HANDLEV
template <class S, int N> struct AV<VectorT<S, N>> {
  using V = VectorT<S, N>;
  static V gen(int c) { V v; for (int i = 0; i < N; ++i) v[(size_t)i] = AV<S>::gen(c + 3 * i); return v; }
  static std::string canon(const V &v) { std::string o = "("; for (int i = 0; i < N; ++i) o += AV<S>::canon(v[(size_t)i]) + (i + 1 < N ? " " : ")"); return o; }
  static bool parse(Cur &c, std::string &o) { o = "("; for (int i = 0; i < N; ++i) { std::string e; if (!AV<S>::parse(c, e)) return false; o += e + (i + 1 < N ? " " : ")"); } return true; }
};
template <class E> struct AV<std::vector<E>> {
  using V = std::vector<E>;
  static V gen(int c) { V v; int n = c % 4 == 0 ? 0 : c % 5; for (int i = 0; i < n; ++i) v.push_back(AV<E>::gen(c / 3 + 5 * i)); return v; }
  static std::string canon(const V &v) { std::string o = "[" + std::to_string(v.size()) + ":"; for (auto &e : v) o += AV<E>::canon(e) + ","; return o + "]"; }
  static bool parse(Cur &c, std::string &o) {
    unsigned long long n;
    if (!c.ull(n)) return false;
    if (n > 1000000) return c.fail("implausible element count");
    o = "[" + std::to_string(n) + ":";
    for (unsigned long long i = 0; i < n; ++i) { std::string e; if (!AV<E>::parse(c, e)) return false; o += e + ","; }
    o += "]";
    return true;
  }
};
template <> struct AV<std::map<HalfEdgeHandle, int>> {
  using V = std::map<HalfEdgeHandle, int>;
  static V gen(int c) { V v; int n = c % 4; for (int i = 0; i < n; ++i) v[HalfEdgeHandle((c * 7 + i * 13) % 50 - (c % 9 == 0 ? 1 : 0))] = AV<int>::gen(c + i); return v; }
  static std::string canon(const V &v) { std::string o = "{" + std::to_string(v.size()) + ":"; for (auto &e : v) o += std::to_string(e.first.idx()) + "=" + std::to_string(e.second) + ","; return o + "}"; }
  static bool parse(Cur &c, std::string &o) {
    unsigned long long n;
    if (!c.ull(n)) return false;
    if (n > 1000000) return c.fail("implausible element count");
    std::map<long long, long long> m;
    for (unsigned long long i = 0; i < n; ++i) { long long k, v; if (!c.ll(k) || !c.ll(v)) return false; m[k] = v; }
    o = "{" + std::to_string(m.size()) + ":";
    for (auto &e : m) o += std::to_string(e.first) + "=" + std::to_string(e.second) + ",";
    o += "}";
    return true;
  }
};

// ---- the ASCII typeName list -------------------------------------------------------------------------------------
#define A_TYPES(X)                                                                                                     \
  X(0, int, "int") X(1, unsigned int, "uint") X(2, short, "short") X(3, long, "long") X(4, unsigned long, "ulong") X(5, char, "char")    \
  X(6, unsigned char, "uchar") X(7, bool, "bool") X(8, float, "float") X(9, double, "double") X(10, std::string, "string")              \
  X(11, AMap, "map_heh_int") X(12, std::vector<double>, "vector_double") X(13, std::vector<VertexHandle>, "vector_vh")                   \
  X(14, std::vector<HalfFaceHandle>, "vector_hfh") X(15, std::vector<std::vector<HalfFaceHandle>>, "vector_vector_hfh")                 \
  X(16, Vec2f, "vec2f") X(17, Vec2d, "vec2d") X(18, Vec2i, "vec2i") X(19, Vec2ui, "vec2ui") X(20, Vec3f, "vec3f") X(21, Vec3d, "vec3d")  \
  X(22, Vec3i, "vec3i") X(23, Vec3ui, "vec3ui") X(24, Vec4f, "vec4f") X(25, Vec4d, "vec4d") X(26, Vec4i, "vec4i") X(27, Vec4ui, "vec4ui")
using AMap = std::map<HalfEdgeHandle, int>;
static const int N_A_TYPES = 28;

inline bool parse_by_type(const std::string &type, Cur &c, std::string &o, bool &known) {
  known = true;
#define X(i, T, n) if (type == n) return AV<T>::parse(c, o);
  A_TYPES(X)
#undef X
  known = false;
  return false;
}

template <class Tag> struct EntName;
template <> struct EntName<Entity::Vertex> { static const char *v() { return "VProp"; } static const int no = 0; };
template <> struct EntName<Entity::Edge> { static const char *v() { return "EProp"; } static const int no = 1; };
template <> struct EntName<Entity::HalfEdge> { static const char *v() { return "HEProp"; } static const int no = 2; };
template <> struct EntName<Entity::Face> { static const char *v() { return "FProp"; } static const int no = 3; };
template <> struct EntName<Entity::HalfFace> { static const char *v() { return "HFProp"; } static const int no = 4; };
template <> struct EntName<Entity::Cell> { static const char *v() { return "CProp"; } static const int no = 5; };
template <> struct EntName<Entity::Mesh> { static const char *v() { return "MProp"; } static const int no = 6; };

struct AProp {
  int ent = 0, type = 0;
  std::string ent_name, type_name, name;
  std::function<void(ResourceManager &, size_t, int)> write;
  // "" in err on success; canonical element texts
  std::function<std::vector<std::string>(ResourceManager &, std::string &)> canon;
};

template <class T, class Tag> AProp make_a_prop(ResourceManager &rm, const std::string &name, const char *type_name, int type) {
  using H = typename PropertyPtr<T, Tag>::EntityHandleT;
  (void)rm.create_persistent_property<T, Tag>(name, AV<T>::gen(0));  // VectorT() is uninitialised; the text format stores no defaults
  AProp p;
  p.ent = EntName<Tag>::no; p.type = type; p.ent_name = EntName<Tag>::v(); p.type_name = type_name; p.name = name;
  p.write = [name](ResourceManager &r, size_t idx, int code) { auto q = r.get_property<T, Tag>(name); if (q && q->size()) (*q)[H((int)(idx % q->size()))] = AV<T>::gen(code); };
  p.canon = [name](ResourceManager &r, std::string &err) {
    std::vector<std::string> out;
    auto q = r.get_property<T, Tag>(name);
    if (!q) { err = "property '" + name + "' is missing"; return out; }
    if (!q->persistent()) { err = "property '" + name + "' is not persistent"; return out; }
    for (size_t i = 0; i < q->size(); ++i) { T v = (*q)[H((int)i)]; out.push_back(AV<T>::canon(v)); }
    return out;
  };
  return p;
}
template <class Tag> AProp make_a_prop_t(ResourceManager &rm, const std::string &name, int type) {
  switch (type) {
#define X(i, T, n) case i: return make_a_prop<T, Tag>(rm, name, n, i);
    A_TYPES(X)
#undef X
  }
  return make_a_prop<int, Tag>(rm, name, "int", 0);
}
// every type on vertices and halffaces; int, bool, double, string, vec3d on every other kind
inline AProp make_a_prop_kt(ResourceManager &rm, int kind, int type, const std::string &name) {
  switch (kind % 7) {
  case 0: return make_a_prop_t<Entity::Vertex>(rm, name, type % N_A_TYPES);
  case 4: return make_a_prop_t<Entity::HalfFace>(rm, name, type % N_A_TYPES);
#define BASIC(K, Tag)                                                                        \
  case K:                                                                                    \
    switch (type % 5) {                                                                      \
    case 0: return make_a_prop<int, Tag>(rm, name, "int", 0);                                \
    case 1: return make_a_prop<bool, Tag>(rm, name, "bool", 7);                              \
    case 2: return make_a_prop<double, Tag>(rm, name, "double", 9);                          \
    case 3: return make_a_prop<std::string, Tag>(rm, name, "string", 10);                    \
    default: return make_a_prop<Vec3d, Tag>(rm, name, "vec3d", 21);                          \
    }
    BASIC(1, Entity::Edge) BASIC(2, Entity::HalfEdge) BASIC(3, Entity::Face) BASIC(5, Entity::Cell)
  default:
    BASIC(6, Entity::Mesh)
#undef BASIC
  }
}

// ---- reference reader ----------------------------------------------------------------------------------------------
struct RefAProp { std::string ent, type, name; std::vector<std::string> elems; };
struct RefA {
  size_t nv = 0;
  std::vector<std::string> pos;
  std::vector<std::pair<long long, long long>> edges;
  std::vector<std::vector<long long>> faces, cells;
  std::vector<RefAProp> props;
};

inline std::string upper(std::string s) { for (auto &c : s) c = (char)toupper((unsigned char)c); return s; }

inline std::string ref_parse(const std::string &text, RefA &r) {
  Cur c(text);
  if (upper(c.token()) != "OVM" || upper(c.token()) != "ASCII") return "header 'OVM ASCII' missing";
  unsigned long long n;
  if (upper(c.token()) != "VERTICES") return "'Vertices' section missing";
  if (!c.ull(n)) return c.err;
  r.nv = n;
  for (unsigned long long i = 0; i < n; ++i) for (int d = 0; d < 3; ++d) { double x; if (!c.dbl(x)) return "vertex " + std::to_string(i) + ": " + c.err; r.pos.push_back(p6(x)); }
  if (upper(c.token()) != "EDGES") return "'Edges' section missing after " + std::to_string(n) + " vertices";
  if (!c.ull(n)) return c.err;
  for (unsigned long long i = 0; i < n; ++i) { long long a, b; if (!c.ll(a) || !c.ll(b)) return "edge " + std::to_string(i) + ": " + c.err; r.edges.emplace_back(a, b); }
  if (upper(c.token()) != "FACES") return "'Faces' section missing after " + std::to_string(n) + " edges";
  if (!c.ull(n)) return c.err;
  for (unsigned long long i = 0; i < n; ++i) {
    unsigned long long val; if (!c.ull(val)) return "face " + std::to_string(i) + ": " + c.err;
    std::vector<long long> l; for (unsigned long long k = 0; k < val; ++k) { long long h; if (!c.ll(h)) return "face " + std::to_string(i) + ": " + c.err; l.push_back(h); }
    r.faces.push_back(l);
  }
  if (upper(c.token()) != "POLYHEDRA") return "'Polyhedra' section missing after " + std::to_string(n) + " faces";
  if (!c.ull(n)) return c.err;
  for (unsigned long long i = 0; i < n; ++i) {
    unsigned long long val; if (!c.ull(val)) return "cell " + std::to_string(i) + ": " + c.err;
    std::vector<long long> l; for (unsigned long long k = 0; k < val; ++k) { long long h; if (!c.ll(h)) return "cell " + std::to_string(i) + ": " + c.err; l.push_back(h); }
    r.cells.push_back(l);
  }
  while (!c.eof()) {
    std::string line = c.line();
    Cur lc(line);
    RefAProp p;
    p.ent = lc.token(); p.type = lc.token();
    size_t q0 = line.find('"'), q1 = line.rfind('"');
    if (q0 == std::string::npos || q1 == q0) return "property header without quoted name: '" + line.substr(0, 60) + "'";
    p.name = line.substr(q0 + 1, q1 - q0 - 1);
    std::string e = upper(p.ent);
    size_t cnt = e == "VPROP" ? r.nv : e == "EPROP" ? r.edges.size() : e == "HEPROP" ? 2 * r.edges.size() : e == "FPROP" ? r.faces.size()
               : e == "HFPROP" ? 2 * r.faces.size() : e == "CPROP" ? r.cells.size() : e == "MPROP" ? 1 : (size_t)-1;
    if (cnt == (size_t)-1) return "unknown property entity '" + p.ent + "'";
    for (size_t i = 0; i < cnt; ++i) {
      std::string o; bool known;
      if (!parse_by_type(p.type, c, o, known)) return known ? "property '" + p.name + "' element " + std::to_string(i) + ": " + c.err : "unknown property type '" + p.type + "'";
      p.elems.push_back(o);
    }
    // rest of the line after the last value
    while (c.p < text.size() && text[c.p] != '\n' && Cur::ws(text[c.p])) ++c.p;
    r.props.push_back(p);
  }
  return "";
}

// same content; the order of the property blocks is not part of the content (the library keeps persistent
// properties in a pointer-ordered set, so the writer's block order is arbitrary)
inline std::string refa_diff(const RefA &a, const RefA &b) {
  if (a.nv != b.nv || a.pos != b.pos) return "vertex section differs";
  if (a.edges != b.edges) return "edge section differs";
  if (a.faces != b.faces) return "face section differs";
  if (a.cells != b.cells) return "polyhedra section differs";
  auto key = [](const RefA &r) { std::vector<std::vector<std::string>> k; for (auto &p : r.props) { std::vector<std::string> e{upper(p.ent), p.type, p.name}; e.insert(e.end(), p.elems.begin(), p.elems.end()); k.push_back(e); } std::sort(k.begin(), k.end()); return k; };
  auto ka = key(a), kb = key(b);
  if (ka.size() != kb.size()) return "number of property blocks differs (" + std::to_string(ka.size()) + " vs " + std::to_string(kb.size()) + ")";
  for (size_t i = 0; i < ka.size(); ++i) if (ka[i] != kb[i]) return "property block " + ka[i][0] + " " + ka[i][1] + " '" + ka[i][2] + "' differs";
  return "";
}

// ---- comparisons ---------------------------------------------------------------------------------------------------
template <class M> std::string compare_to_ref(M &m, std::vector<AProp> &props, const RefA &r) {
  std::ostringstream o;
  if (r.nv != m.n_vertices() || r.edges.size() != m.n_edges() || r.faces.size() != m.n_faces() || r.cells.size() != m.n_cells()) {
    o << "file declares V/E/F/C " << r.nv << "/" << r.edges.size() << "/" << r.faces.size() << "/" << r.cells.size() << ", mesh has " << m.n_vertices() << "/" << m.n_edges() << "/" << m.n_faces() << "/" << m.n_cells();
    return o.str();
  }
  for (size_t v = 0; v < r.nv; ++v) for (int d = 0; d < 3; ++d)
    if (r.pos[3 * v + (size_t)d] != p6(m.vertex(VertexHandle((int)v))[(size_t)d])) { o << "coordinate " << d << " of vertex " << v << " is '" << r.pos[3 * v + (size_t)d] << "' in the file, mesh has " << p6(m.vertex(VertexHandle((int)v))[(size_t)d]); return o.str(); }
  for (size_t e = 0; e < r.edges.size(); ++e)
    if (r.edges[e].first != m.edge(EdgeHandle((int)e)).from_vertex().idx() || r.edges[e].second != m.edge(EdgeHandle((int)e)).to_vertex().idx()) { o << "edge " << e << " differs in the file"; return o.str(); }
  for (size_t f = 0; f < r.faces.size(); ++f) {
    std::vector<long long> l; for (auto h : m.face(FaceHandle((int)f)).halfedges()) l.push_back(h.idx());
    if (l != r.faces[f]) { o << "face " << f << " differs in the file"; return o.str(); }
  }
  for (size_t c = 0; c < r.cells.size(); ++c) {
    std::vector<long long> l; for (auto h : m.cell(CellHandle((int)c)).halffaces()) l.push_back(h.idx());
    if (l != r.cells[c]) { o << "cell " << c << " differs in the file"; return o.str(); }
  }
  if (r.props.size() != props.size()) { o << "file contains " << r.props.size() << " properties, mesh has " << props.size() << " persistent serialisable properties"; return o.str(); }
  for (auto &p : props) {
    const RefAProp *hit = nullptr;
    for (auto &q : r.props) if (upper(q.ent) == upper(p.ent_name) && q.type == p.type_name && q.name == p.name) hit = &q;
    if (!hit) return "property " + p.ent_name + " " + p.type_name + " '" + p.name + "' not found in the file";
    std::string err;
    auto exp = p.canon(m, err);
    if (!err.empty()) return err;
    if (exp.size() != hit->elems.size()) return "property '" + p.name + "' has a different number of elements in the file";
    for (size_t i = 0; i < exp.size(); ++i) if (exp[i] != hit->elems[i]) { o << "property " << p.type_name << " '" << p.name << "' element " << i << " is " << vf::json_escape(hit->elems[i]).substr(0, 80) << " in the file, mesh has " << vf::json_escape(exp[i]).substr(0, 80); return o.str(); }
  }
  return "";
}

template <class M> size_t n_persistent(const M &m) {
  return m.template n_persistent_props<Entity::Vertex>() + m.template n_persistent_props<Entity::Edge>() + m.template n_persistent_props<Entity::HalfEdge>() + m.template n_persistent_props<Entity::Face>() +
         m.template n_persistent_props<Entity::HalfFace>() + m.template n_persistent_props<Entity::Cell>() + m.template n_persistent_props<Entity::Mesh>();
}

// `b` (read back) equals `a` to printed precision
template <class MA, class MB> std::string compare_ascii(MA &a, MB &b, std::vector<AProp> &props) {
  std::ostringstream o;
  if (a.n_vertices() != b.n_vertices() || a.n_edges() != b.n_edges() || a.n_faces() != b.n_faces() || a.n_cells() != b.n_cells()) {
    o << "entity counts V/E/F/C " << b.n_vertices() << "/" << b.n_edges() << "/" << b.n_faces() << "/" << b.n_cells() << " differ from the written mesh " << a.n_vertices() << "/" << a.n_edges() << "/" << a.n_faces() << "/" << a.n_cells();
    return o.str();
  }
  if (b.needs_garbage_collection()) return "mesh read back has pending deletions";
  for (size_t e = 0; e < a.n_edges(); ++e) { EdgeHandle h((int)e); if (a.edge(h).from_vertex() != b.edge(h).from_vertex() || a.edge(h).to_vertex() != b.edge(h).to_vertex()) { o << "edge " << e << " differs after reading back"; return o.str(); } }
  for (size_t f = 0; f < a.n_faces(); ++f) if (a.face(FaceHandle((int)f)).halfedges() != b.face(FaceHandle((int)f)).halfedges()) { o << "face " << f << " differs after reading back"; return o.str(); }
  for (size_t c = 0; c < a.n_cells(); ++c) if (a.cell(CellHandle((int)c)).halffaces() != b.cell(CellHandle((int)c)).halffaces()) { o << "cell " << c << " differs after reading back"; return o.str(); }
  for (size_t v = 0; v < a.n_vertices(); ++v) for (int d = 0; d < 3; ++d) {
    std::string x = p6(a.vertex(VertexHandle((int)v))[(size_t)d]), y = p6(b.vertex(VertexHandle((int)v))[(size_t)d]);
    if (x != y) { o << "coordinate " << d << " of vertex " << v << " reads back as " << y << ", written mesh has " << x << " (6 significant digits)"; return o.str(); }
  }
  for (auto &p : props) {
    std::string ea, eb;
    auto ca = p.canon(a, ea);
    auto cb = p.canon(b, eb);
    if (!ea.empty()) continue;
    if (!eb.empty()) return eb + " after reading back";
    if (ca.size() != cb.size()) return "property '" + p.name + "' has " + std::to_string(cb.size()) + " elements after reading back, expected " + std::to_string(ca.size());
    for (size_t i = 0; i < ca.size(); ++i) if (ca[i] != cb[i]) { o << "property " << p.type_name << " '" << p.name << "' element " << i << " reads back as " << vf::json_escape(cb[i]).substr(0, 80) << ", written " << vf::json_escape(ca[i]).substr(0, 80); return o.str(); }
  }
  if (n_persistent(a) != n_persistent(b)) { o << "read-back mesh has " << n_persistent(b) << " persistent properties, the written mesh " << n_persistent(a); return o.str(); }
  return "";
}

}  // namespace vfa
