// C06 (OVM-ASCII part): text format round trip to printed precision, independent reference reader of the written
// text, idempotent second round trip, file-name interface, type detection, cross-type reads, pending deletions.
#include "ascii_common.hh"
#include "ascii_shim.hh"
#include "interp.hh"
#include "io_gen.hh"
#include "rcmain.hh"
#include <fstream>

using namespace vf;
using namespace vfa;

namespace target {

const std::vector<OpInfo> &optable() { return poly_optable(); }

std::vector<std::pair<int, int>> weights(const std::string &) {
  return {{5, O_ADD_VERTEX}, {3, O_ADD_N_VERTICES}, {5, O_ADD_EDGE}, {7, O_ADD_FACE_V}, {4, O_ADD_FACE_HE}, {14, O_ADD_CELL_TPL},
          {8, O_ADD_CONE}, {3, O_ADD_RING}, {2, O_DEL_V}, {2, O_DEL_E}, {3, O_DEL_F}, {3, O_DEL_C}, {1, O_SWAP_V}, {1, O_SWAP_E},
          {1, O_SWAP_F}, {1, O_SWAP_C}, {1, O_GC}, {2, O_EN_DEFERRED}, {2, O_EN_FAST}, {12, O_PROP_CREATE}, {14, O_PROP_WRITE}, {1, O_QUERY}};
}

static std::string oneline(std::string s) { for (auto &c : s) if (c == '\n' || c == '\r' || c == '\0') c = ' '; return s; }

using Poly = GeometricPolyhedralMeshV3d;
using Tet = GeometricTetrahedralMeshV3d;
using Hex = GeometricHexahedralMeshV3d;
inline bool a_write(const Poly &m, std::string &o) { return ascii_shim::write_poly(m, o); }
inline bool a_write(const Tet &m, std::string &o) { return ascii_shim::write_tet(m, o); }
inline bool a_write(const Hex &m, std::string &o) { return ascii_shim::write_hex(m, o); }
inline bool a_read(const std::string &t, bool c, bool b, Poly &m) { return ascii_shim::read_poly(t, c, b, m); }
inline bool a_read(const std::string &t, bool c, bool b, Tet &m) { return ascii_shim::read_tet(t, c, b, m); }
inline bool a_read(const std::string &t, bool c, bool b, Hex &m) { return ascii_shim::read_hex(t, c, b, m); }
inline bool a_write_file(const Poly &m, const std::string &p) { return ascii_shim::write_poly_file(m, p); }
inline bool a_write_file(const Tet &m, const std::string &p) { return ascii_shim::write_tet_file(m, p); }
inline bool a_write_file(const Hex &m, const std::string &p) { return ascii_shim::write_hex_file(m, p); }
inline bool a_read_file(const std::string &p, bool c, bool b, Poly &m) { return ascii_shim::read_poly_file(p, c, b, m); }
inline bool a_read_file(const std::string &p, bool c, bool b, Tet &m) { return ascii_shim::read_tet_file(p, c, b, m); }
inline bool a_read_file(const std::string &p, bool c, bool b, Hex &m) { return ascii_shim::read_hex_file(p, c, b, m); }
template <class M> struct BaseOf { using type = M; };
template <> struct BaseOf<PolyMesh> { using type = Poly; };

struct AStats { uint64_t reads = 0, reordered = 0, file_cases = 0, cross = 0, pending = 0, detect = 0, ref_parsed = 0; };

template <class M> std::string pending_check_ascii(M &m, AStats &as) {
  // a mesh with pending deletions is refused (stream / writeFile report failure) or written as its logical content
  using B = typename BaseOf<M>::type;
  ++as.pending;
  std::string text;
  if (!a_write(static_cast<const B &>(m), text)) return "";
  B back;
  if (!a_read(text, false, true, back)) return "a mesh with pending deletions was written without any error indication as a file that cannot be read back";
  if (back.n_vertices() != m.n_logical_vertices() || back.n_edges() != m.n_logical_edges() || back.n_faces() != m.n_logical_faces() || back.n_cells() != m.n_logical_cells()) {
    std::ostringstream o;
    o << "a mesh with pending deletions (logical V/E/F/C " << m.n_logical_vertices() << "/" << m.n_logical_edges() << "/" << m.n_logical_faces() << "/" << m.n_logical_cells()
      << ") was written without any error indication as a file that reads back as a different mesh (" << back.n_vertices() << "/" << back.n_edges() << "/" << back.n_faces() << "/" << back.n_cells() << ")";
    return o.str();
  }
  return "";
}

template <class M> std::vector<AProp> apply_aprop_ops(M &m, const Program &prog, std::vector<std::string> &annot) {
  std::vector<AProp> props;
  int counter = 0;
  for (size_t i = 0; i < prog.size(); ++i) {
    const Op &op = prog[i];
    if (op.code == O_PROP_CREATE && props.size() < 10) {
      // names: the format puts them between double quotes on one line; blanks, '#', inner quotes are generated
      static const char *pre[] = {"p", "we ird\tname ", "in\"ner", "#hash ", "VProp int "};
      std::string name = std::string(pre[op.a[3] % 5]) + std::to_string(counter++);
      static const int kindmap[10] = {0, 1, 2, 3, 4, 5, 6, 0, 0, 4};  // every value type exists on vertices and halffaces
      props.push_back(make_a_prop_kt(m, kindmap[op.a[0] % 10], op.a[1], name));
      annot[i] = "persistent " + props.back().ent_name + " " + props.back().type_name + " '" + name + "'";
    } else if (op.code == O_PROP_WRITE && !props.empty()) {
      AProp &p = props[(size_t)op.a[0] % props.size()];
      p.write(m, (size_t)op.a[1] * 7 + (size_t)op.a[3], op.a[2]);
      annot[i] = "write '" + p.name + "'";
    }
  }
  return props;
}

template <class M> void set_positions(M &m, int sel) {
  if (sel % 2 == 0) return;
  for (size_t v = 0; v < m.n_vertices(); ++v)
    m.set_vertex(VertexHandle((int)v), Vec3d(finite_gen(sel + (int)v * 7), finite_gen(sel / 3 + (int)v * 5 + 1), finite_gen(sel / 7 + (int)v * 3 + 2)));
}

static std::string slurp(const std::string &p) { std::ifstream f(p, std::ios::binary); std::stringstream ss; ss << f.rdbuf(); return ss.str(); }

// all ASCII oracles on one mesh. topo: 0 polyhedral / undecided, 1 all cells tetrahedra, 2 all cells hexahedra
template <class M> std::string ascii_checks(M &mm, int topo, bool cells4, bool cells6, std::vector<AProp> &props, const Op &cfg, AStats &as, std::string &text_out) {
  using B = typename BaseOf<M>::type;
  B &m = mm;
  std::ostringstream o;
  std::string text;
  if (!a_write(m, text)) return "writeStream left the stream in a failed state for a mesh without pending deletions";
  text_out = text;
  // (2) an independent reader of the documented format recovers the same mesh from the text
  RefA ref;
  std::string e = ref_parse(text, ref);
  if (!e.empty()) return "the written text does not parse under the documented format: " + e;
  ++as.ref_parsed;
  e = compare_to_ref(m, props, ref);
  if (!e.empty()) return "written text read by the reference reader: " + e;
  // (1) library round trip for both option values, (3) second round trip changes nothing
  for (int k = 0; k < 2; ++k) {
    bool check = (cfg.a[1] >> k) & 1, bu = (cfg.a[2] >> k) & 1;
    B back;
    ++as.reads;
    if (!a_read(text, check, bu, back)) { o << "readStream(topology_check=" << check << ", bottom_up=" << bu << ") of the writer's output returned false"; return o.str(); }
    e = compare_ascii(m, back, props);
    if (!e.empty()) return "round trip (topology_check=" + std::to_string(check) + "): " + e;
    if (back.has_vertex_bottom_up_incidences() != bu || back.has_edge_bottom_up_incidences() != bu || back.has_face_bottom_up_incidences() != bu)
      return "bottom-up incidences after reading do not match the readStream argument";
    std::string text2;
    if (!a_write(back, text2)) return "writing the mesh read back failed";
    if (text2 != text) {  // byte-identical in the common case; otherwise the same content in a different property order
      RefA ref2;
      e = ref_parse(text2, ref2);
      if (e.empty()) e = refa_diff(ref, ref2);
      if (!e.empty()) return "a second round trip changes the file: " + e;
      ++as.reordered;
    }
  }
  // (4) file-name interface and type detection
  if (cfg.a[0] % 3 == 0) {
    ++as.file_cases;
    std::string path = scratch_dir() + "/ascii_case.ovm";
    if (!a_write_file(m, path)) return "writeFile returned false";
    std::string ftext = slurp(path);
    bool tet = ascii_shim::is_tet_file(path), hex = ascii_shim::is_hex_file(path);
    B back;
    bool rok = a_read_file(path, cfg.a[1] & 1, true, back);
    std::remove(path.c_str());
    if (ftext != text) {
      RefA rf;
      e = ref_parse(ftext, rf);
      if (e.empty()) e = refa_diff(ref, rf);
      if (!e.empty()) return "writeFile and writeStream produce different content for the same mesh: " + e;
    }
    if (!rok) return "readFile of the file written by writeFile returned false";
    e = compare_ascii(m, back, props);
    if (!e.empty()) return "round trip through writeFile/readFile: " + e;
    ++as.detect;
    if (topo == 1 && !tet) return "isTetrahedralMesh is false for the file of a mesh whose cells are all tetrahedra";
    if (topo == 2 && !hex) return "isHexahedralMesh is false for the file of a mesh whose cells are all hexahedra";
    if (!cells4 && tet) return "isTetrahedralMesh is true for the file of a mesh that has no cells or a cell that does not have 4 faces";
    if (!cells6 && hex) return "isHexahedralMesh is true for the file of a mesh that has no cells or a cell that does not have 6 faces";
  }
  return "";
}

vf::CaseResult run_case(const std::string &id, const Program &prog, Stats &st) {
  CaseResult res;
  res.annot.assign(prog.size(), "");
  if (prog.empty()) return res;
  IoStats is;
  AStats as;
  const Op &cfg = prog[0];
  int kind = cfg.a[4] % 4;  // 0,3: polyhedral, 1: tetrahedral, 2: hexahedral
  std::string fail, text;
  bool pending_seen = false, has_cell = false;
  std::vector<AProp> props;
  uint64_t ws0 = excl().char_ws, nf0 = excl().nonfinite;
  if (kind == 1) {
    Tet m;
    build_simplicial(m, prog, false, pending_seen, fail, is, [&](Tet &mm, IoStats &) { return pending_check_ascii(mm, as); });
    set_positions(m, cfg.a[3]);
    props = apply_aprop_ops(m, prog, res.annot);
    has_cell = m.n_cells() > 0;
    if (fail.empty()) fail = ascii_checks(m, has_cell ? 1 : 0, has_cell, false, props, cfg, as, text);
    if (fail.empty() && has_cell) {  // a tetrahedral file also reads into a polyhedral mesh
      Poly back;
      ++as.cross;
      if (!ascii_shim::read_poly(text, true, true, back)) fail = "file of a tetrahedral mesh is not readable into a polyhedral mesh";
      else fail = compare_ascii(m, back, props);
    }
    st.count("mesh:tetrahedral");
  } else if (kind == 2) {
    Hex m;
    build_simplicial(m, prog, true, pending_seen, fail, is, [&](Hex &mm, IoStats &) { return pending_check_ascii(mm, as); });
    set_positions(m, cfg.a[3]);
    props = apply_aprop_ops(m, prog, res.annot);
    has_cell = m.n_cells() > 0;
    if (fail.empty()) fail = ascii_checks(m, has_cell ? 2 : 0, false, has_cell, props, cfg, as, text);
    if (fail.empty() && has_cell) {
      Poly back;
      ++as.cross;
      if (!ascii_shim::read_poly(text, true, true, back)) fail = "file of a hexahedral mesh is not readable into a polyhedral mesh";
      else fail = compare_ascii(m, back, props);
    }
    st.count("mesh:hexahedral");
  } else {
    Interp I;
    I.st = &st;
    I.allow_set = false;
    Sut &S = I.add_sut("mesh");
    for (size_t i = 0; i < prog.size(); ++i) {
      const Op &op = prog[i];
      if (op.code == O_PROP_CREATE || op.code == O_PROP_WRITE || op.code == O_QUERY) continue;
      bool cont = I.run_op(op);
      res.annot[i] = I.cur_annot;
      if (S.mesh.needs_garbage_collection() && !pending_seen && fail.empty()) { pending_seen = true; fail = pending_check_ascii(S.mesh, as); }
      if (!cont) break;
    }
    if (!I.fail.empty()) { st.count("discarded_prereq_" + I.fail_owner); return res; }
    S.mesh.enable_deferred_deletion(false);
    set_positions(S.mesh, cfg.a[3]);
    props = apply_aprop_ops(S.mesh, prog, res.annot);
    has_cell = S.mesh.n_cells() > 0;
    bool all3 = true, all4f = true, c4 = has_cell, c6 = has_cell;
    for (auto f : S.mesh.faces()) { all3 = all3 && S.mesh.valence(f) == 3; all4f = all4f && S.mesh.valence(f) == 4; }
    for (auto c : S.mesh.cells()) { c4 = c4 && S.mesh.valence(c) == 4; c6 = c6 && S.mesh.valence(c) == 6; }
    int topo = (c4 && all3) ? 1 : (c6 && all4f) ? 2 : 0;
    if (fail.empty()) fail = ascii_checks(S.mesh, topo, c4, c6, props, cfg, as, text);
    if (fail.empty() && topo == 1) {
      Tet back;
      ++as.cross;
      if (!ascii_shim::read_tet(text, true, true, back)) fail = "file of an all-tetrahedra polyhedral mesh is not readable into a TetrahedralMesh";
      else fail = compare_ascii(static_cast<Poly &>(S.mesh), back, props);
    }
    st.count("mesh:polyhedral");
    st.count(std::string("cells_") + (topo == 1 ? "all_tet" : topo == 2 ? "all_hex" : has_cell ? "mixed" : "none"));
  }
  st.count("ascii_reads", as.reads); st.count("second_trip_same_content_other_property_order", as.reordered); st.count("reference_reader_parses", as.ref_parsed); st.count("pending_deletion_writes_checked", as.pending);
  st.count("file_interface_cases", as.file_cases); st.count("type_detection_checked", as.detect); st.count("cross_type_reads", as.cross);
  st.count("persistent_props", props.size()); st.count("excluded_whitespace_char_values", excl().char_ws - ws0); st.count("excluded_nonfinite_values", excl().nonfinite - nf0);
  std::set<int> ents, types;
  bool half = false, text_like = false;
  for (auto &p : props) { ents.insert(p.ent); types.insert(p.type); if (p.ent == 2 || p.ent == 4) half = true; if (p.type == 10 || p.type >= 11) text_like = true; st.count("proptype:" + p.type_name); }
  res.nontrivial = has_cell && ents.size() >= 2 && half && text_like;
  if (!fail.empty()) { res.ok = false; res.msg = oneline(fail); if (getenv("VF_ASCII_DUMP")) std::cerr << "---- written text ----\n" << text << "----\n"; }
  (void)id;
  return res;
}

}  // namespace target

VF_DEFINE_MAIN
