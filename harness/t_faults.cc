// C18: OVMB detects truncation, framing corruption and stream failures.
// Fault enumeration over generated valid files; the reference decoder (from ovmb.ksy) classifies
// every mutated file, rejection is only demanded where the reference rejects it for a listed reason.
#include "interp.hh"
#include "io_common.hh"
#include "io_gen.hh"
#include "rcmain.hh"
#include <streambuf>

using namespace vf;
using namespace vfio;

namespace target {

const std::vector<OpInfo> &optable() { return poly_optable(); }

std::vector<std::pair<int, int>> weights(const std::string &) {
  return {{5, O_ADD_VERTEX}, {2, O_ADD_N_VERTICES}, {5, O_ADD_EDGE}, {7, O_ADD_FACE_V}, {3, O_ADD_FACE_HE}, {14, O_ADD_CELL_TPL},
          {8, O_ADD_CONE}, {2, O_ADD_RING}, {2, O_DEL_E}, {2, O_DEL_F}, {2, O_DEL_C}, {10, O_PROP_CREATE}, {10, O_PROP_WRITE}};
}

static std::string oneline(std::string s) { for (auto &c : s) if (c == '\n' || c == '\r') c = ' '; return s; }

// seekable input buffer over a byte vector that starts failing at position `fail_at`
struct FaultyInBuf : std::streambuf {
  const Bytes &d;
  size_t pos = 0, fail_at;
  bool do_throw;
  FaultyInBuf(const Bytes &b, size_t f, bool t) : d(b), fail_at(f), do_throw(t) {}
  std::streamsize xsgetn(char *s, std::streamsize n) override {
    size_t can = pos >= fail_at ? 0 : std::min<size_t>((size_t)n, fail_at - pos);
    can = std::min(can, d.size() - std::min(pos, d.size()));
    if (can) memcpy(s, d.data() + pos, can);
    pos += can;
    if ((std::streamsize)can < n && pos >= fail_at && do_throw) throw std::ios_base::failure("injected read failure");
    return (std::streamsize)can;
  }
  int_type underflow() override {
    if (pos >= fail_at) { if (do_throw) throw std::ios_base::failure("injected read failure"); return traits_type::eof(); }
    if (pos >= d.size()) return traits_type::eof();
    return traits_type::to_int_type((char)d[pos]);
  }
  int_type uflow() override { int_type c = underflow(); if (c != traits_type::eof()) ++pos; return c; }
  pos_type seekoff(off_type off, std::ios_base::seekdir dir, std::ios_base::openmode) override {
    long base = dir == std::ios_base::beg ? 0 : dir == std::ios_base::cur ? (long)pos : (long)d.size();
    long np = base + (long)off;
    if (np < 0 || np > (long)d.size()) return pos_type(off_type(-1));
    pos = (size_t)np;
    return pos_type((off_type)np);
  }
  pos_type seekpos(pos_type p, std::ios_base::openmode m) override { return seekoff(off_type(p), std::ios_base::beg, m); }
};
// output buffer that fails from position `fail_at` on
struct FaultyOutBuf : std::streambuf {
  size_t written = 0, fail_at;
  bool do_throw;
  FaultyOutBuf(size_t f, bool t) : fail_at(f), do_throw(t) {}
  std::streamsize xsputn(const char *, std::streamsize n) override {
    size_t can = written >= fail_at ? 0 : std::min<size_t>((size_t)n, fail_at - written);
    written += can;
    if ((std::streamsize)can < n && do_throw) throw std::ios_base::failure("injected write failure");
    return (std::streamsize)can;
  }
  int_type overflow(int_type c) override {
    if (written >= fail_at) { if (do_throw) throw std::ios_base::failure("injected write failure"); return traits_type::eof(); }
    ++written;
    return c;
  }
};

struct Chunk { size_t begin, end, payload_begin; std::string type; };
static std::vector<Chunk> parse_chunks(const Bytes &b) {
  std::vector<Chunk> r;
  size_t p = 48;
  while (p + 16 <= b.size()) {
    uint64_t len = 0;
    for (int i = 0; i < 8; ++i) len |= (uint64_t)b[p + 8 + (size_t)i] << (8 * i);
    Chunk c;
    c.begin = p; c.payload_begin = p + 16; c.end = p + 16 + (size_t)len; c.type.assign((const char *)&b[p], 4);
    if (c.end > b.size()) break;
    r.push_back(c);
    p = c.end;
  }
  return r;
}

struct FaultStats {
  uint64_t reads = 0, truncations = 0, substitutions = 0, sub_ref_invalid = 0, sub_ref_ok = 0, sub_unjudged = 0, structure_edits = 0, struct_unjudged = 0,
           in_faults = 0, out_faults = 0, near_topo_prop = 0, skipped_huge = 0;
};

template <class M> IO::ReadResult read_bytes(const Bytes &b, M &m, FaultStats &fs) { ++fs.reads; return read_ovmb_bytes(b, m, false, true); }

// the library's verdict on a mutated file must agree with the reference decoder's
template <class M> std::string judge(const Bytes &file, const M &orig_for_type, const std::string &what, FaultStats &fs, uint64_t &inv, uint64_t &okc, uint64_t &unj) {
  (void)orig_for_type;
  // declared entity counts beyond 10^6 only exercise the allocator (allowed outcome: error / std::exception); skipped, counted
  if (file.size() >= 48)
    for (int k = 0; k < 4; ++k) {
      uint64_t v = 0;
      for (int i = 0; i < 8; ++i) v |= (uint64_t)file[16 + 8 * (size_t)k + (size_t)i] << (8 * i);
      if (v > 1000000) { ++fs.skipped_huge; return ""; }
    }
  auto dec = ovmbref::ref_decode(file);
  M back;
  IO::ReadResult rr = read_bytes(file, back, fs);
  if (dec.verdict == ovmbref::Verdict::Unjudged) { ++unj; return ""; }
  if (dec.verdict == ovmbref::Verdict::Invalid) {
    ++inv;
    if (rr == IO::ReadResult::Ok) return what + ": the file is inconsistent (" + dec.reason + ") but ovmb_read returns Ok";
    return "";
  }
  ++okc;
  if (dec.mesh.vertex_dim != 3) return "";  // incompatible with the mesh type, not a framing matter
  if (std::is_base_of<TetrahedralMeshTopologyKernel, M>::value && dec.mesh.topo_type != 1) return "";  // likewise (IncompatibleMesh is correct)
  if (rr != IO::ReadResult::Ok) return what + ": the file is still valid under the format description but ovmb_read returns " + IO::to_string(rr);
  std::vector<IOProp> none;
  RefMesh got = to_ref(back, dec.mesh.topo_type, none);
  RefMesh exp = dec.mesh;
  exp.props.clear();
  if (!exp.has_positions) got.pos.clear();
  std::string c = compare_ref(exp, got);
  if (!c.empty()) return what + ": still valid under the format description but reads to a different mesh: " + c;
  return "";
}

template <class M> std::string enumerate_faults(M &m, FaultStats &fs, bool interesting) {
  std::ostringstream o;
  Bytes file;
  std::string w = write_ovmb_bytes([&](std::ostream &s) { return IO::ovmb_write(s, m); }, file);
  if (!w.empty()) return "";  // C06's business
  auto chunks = parse_chunks(file);
  const size_t n = file.size();
  auto near_tp = [&](size_t pos) {
    for (auto &c : chunks) if ((c.type == "TOPO" || c.type == "PROP") && pos >= c.begin && pos <= c.end + 16) return true;
    return false;
  };
  // 1. every strict prefix is rejected
  {
    size_t step = n > 6000 ? 1 + n / 3000 : 1;
    for (size_t len = 0; len < n; len += (len + 64 >= n || len < 80) ? 1 : step) {
      Bytes t(file.begin(), file.begin() + (long)len);
      M back;
      ++fs.truncations;
      if (interesting && near_tp(len)) ++fs.near_topo_prop;
      if (read_bytes(t, back, fs) == IO::ReadResult::Ok) { o << "file truncated to " << len << " of " << n << " bytes: ovmb_read returns Ok"; return o.str(); }
    }
    for (auto &c : chunks) {  // exactly at every chunk boundary
      Bytes t(file.begin(), file.begin() + (long)c.begin);
      M back;
      ++fs.truncations;
      if (read_bytes(t, back, fs) == IO::ReadResult::Ok) { o << "file cut exactly before its '" << c.type << "' chunk (" << c.begin << " of " << n << " bytes): ovmb_read returns Ok"; return o.str(); }
    }
  }
  // 2. single-byte substitution in the file header, every chunk header and sub-header
  {
    std::vector<size_t> positions;
    for (size_t i = 0; i < 48; ++i) positions.push_back(i);
    for (auto &c : chunks) {
      size_t sub = c.type == "VERT" ? 16 : c.type == "TOPO" ? 24 : c.type == "PROP" ? 16 : c.type == "DIRP" ? 14 : 0;
      for (size_t i = c.begin; i < c.payload_begin + sub && i < c.end; ++i) positions.push_back(i);
      for (size_t i = c.end >= 8 ? c.end - 8 : c.begin; i < c.end; ++i) if (i >= c.payload_begin + sub) positions.push_back(i);  // padding / tail
    }
    for (size_t p : positions) {
      uint8_t orig = file[p];
      const uint8_t vals[] = {0, 1, 2, 0x7f, 0x80, 0xfe, 0xff, (uint8_t)(orig + 1), (uint8_t)(orig - 1)};
      for (uint8_t v : vals) {
        if (v == orig) continue;
        Bytes mfile = file;
        mfile[p] = v;
        ++fs.substitutions;
        if (interesting && near_tp(p)) ++fs.near_topo_prop;
        std::ostringstream what;
        what << "byte " << p << " of " << n << " (";
        if (p < 48) what << "file header"; else for (auto &c : chunks) if (p >= c.begin && p < c.end) what << "'" << c.type << "' chunk at " << c.begin << ", offset " << p - c.begin;
        what << ") changed from " << (int)orig << " to " << (int)v;
        std::string r = judge(mfile, m, what.str(), fs, fs.sub_ref_invalid, fs.sub_ref_ok, fs.sub_unjudged);
        if (!r.empty()) return r;
      }
    }
  }
  // 3. chunk structure: drop / duplicate / exchange chunks
  {
    uint64_t inv = 0, okc = 0;
    auto build = [&](const std::vector<size_t> &order) {
      Bytes f(file.begin(), file.begin() + 48);
      for (size_t i : order) f.insert(f.end(), file.begin() + (long)chunks[i].begin, file.begin() + (long)chunks[i].end);
      return f;
    };
    std::vector<size_t> id;
    for (size_t i = 0; i < chunks.size(); ++i) id.push_back(i);
    for (size_t i = 0; i < chunks.size(); ++i) {
      std::vector<size_t> drop = id, dup = id, sw = id;
      drop.erase(drop.begin() + (long)i);
      dup.insert(dup.begin() + (long)i, i);
      ++fs.structure_edits;
      std::string r = judge(build(drop), m, "chunk #" + std::to_string(i) + " ('" + chunks[i].type + "') dropped", fs, inv, okc, fs.struct_unjudged);
      if (!r.empty()) return r;
      ++fs.structure_edits;
      r = judge(build(dup), m, "chunk #" + std::to_string(i) + " ('" + chunks[i].type + "') duplicated", fs, inv, okc, fs.struct_unjudged);
      if (!r.empty()) return r;
      if (i + 1 < chunks.size()) {
        std::swap(sw[i], sw[i + 1]);
        ++fs.structure_edits;
        r = judge(build(sw), m, "chunks #" + std::to_string(i) + " ('" + chunks[i].type + "') and #" + std::to_string(i + 1) + " ('" + chunks[i + 1].type + "') exchanged", fs, inv, okc, fs.struct_unjudged);
        if (!r.empty()) return r;
      }
    }
    if (!chunks.empty()) {  // EOF chunk moved to the front
      std::vector<size_t> mv;
      mv.push_back(chunks.size() - 1);
      for (size_t i = 0; i + 1 < chunks.size(); ++i) mv.push_back(i);
      ++fs.structure_edits;
      std::string r = judge(build(mv), m, "EOF chunk moved to the front", fs, inv, okc, fs.struct_unjudged);
      if (!r.empty()) return r;
    }
  }
  // 4. stream failures: the input stream starts failing at position p
  {
    size_t step = n > 4000 ? 1 + n / 2000 : 1;
    for (int thr = 0; thr < 2; ++thr)
      for (size_t p = 0; p < n; p += (p + 40 >= n || p < 64) ? 1 : step) {
        FaultyInBuf buf(file, p, thr != 0);
        std::istream is(&buf);
        M back;
        ++fs.in_faults;
        ++fs.reads;
        if (interesting && near_tp(p)) ++fs.near_topo_prop;
        IO::ReadOptions ro;
        ro.topology_check = false;
        IO::ReadResult rr;
        try { rr = IO::ovmb_read(is, back, ro); } catch (std::exception &e) { rr = IO::ReadResult::OtherError; }
        if (rr == IO::ReadResult::Ok) { o << "input stream fails (" << (thr ? "exception" : "short read") << ") from byte " << p << " of " << n << ": ovmb_read returns Ok"; return o.str(); }
      }
    // every ovmb_write zero-fills a 100 MB buffer (about 30 ms): output fault positions are every chunk / payload start,
    // the first and last 3 bytes and every 211th byte in between
    std::set<size_t> outpos;
    for (size_t p = 0; p < n; ++p) if (p < 3 || p + 3 >= n || p % 211 == 0) outpos.insert(p);
    for (auto &c : chunks) { outpos.insert(c.begin); if (c.begin) outpos.insert(c.begin - 1); outpos.insert(c.payload_begin); }
    for (int thr = 0; thr < 2; ++thr)
      for (size_t p : outpos) {
        if (p >= n || (thr && p % 3)) continue;
        FaultyOutBuf buf(p, thr != 0);
        std::ostream os(&buf);
        ++fs.out_faults;
        IO::WriteResult wr;
        try { wr = IO::ovmb_write(os, m); } catch (std::exception &e) { wr = IO::WriteResult::Error; }
        if (wr == IO::WriteResult::Ok) { o << "output stream fails (" << (thr ? "exception" : "short write") << ") from byte " << p << " of " << n << ": ovmb_write returns Ok"; return o.str(); }
      }
  }
  return "";
}

vf::CaseResult run_case(const std::string &id, const Program &prog, Stats &st) {
  CaseResult res;
  res.annot.assign(prog.size(), "");
  if (prog.empty()) return res;
  FaultStats fs;
  IoStats is;
  std::string fail;
  bool interesting = false;
  int kind = prog[0].a[4] % 3;
  if (kind == 1) {
    GeometricTetrahedralMeshV3d m;
    bool pend = true;
    std::string dummy;
    build_simplicial(m, prog, false, pend, dummy, is);
    auto props = apply_prop_ops(m, prog, res.annot);
    interesting = m.n_cells() > 0 && !props.empty();
    fail = enumerate_faults(m, fs, interesting);
    st.count("mesh:tetrahedral");
  } else {
    Interp I;
    I.st = &st;
    I.allow_set = false;
    Sut &S = I.add_sut("mesh");
    for (size_t i = 0; i < prog.size(); ++i) {
      const Op &op = prog[i];
      if (op.code == O_PROP_CREATE || op.code == O_PROP_WRITE) continue;
      bool cont = I.run_op(op);
      res.annot[i] = I.cur_annot;
      if (!cont) break;
    }
    if (!I.fail.empty()) { st.count("discarded_prereq_" + I.fail_owner); return res; }
    S.mesh.enable_deferred_deletion(false);
    auto props = apply_prop_ops(S.mesh, prog, res.annot);
    interesting = S.mesh.n_cells() > 0 && !props.empty();
    fail = enumerate_faults(S.mesh, fs, interesting);
    st.count("mesh:polyhedral");
  }
  st.count("faulted_reads_total", fs.reads); st.count("truncation_lengths", fs.truncations); st.count("byte_substitutions", fs.substitutions);
  st.count("substitution_reference_rejects", fs.sub_ref_invalid); st.count("substitution_reference_accepts", fs.sub_ref_ok); st.count("substitution_unjudged", fs.sub_unjudged);
  st.count("chunk_structure_edits", fs.structure_edits); st.count("chunk_structure_unjudged", fs.struct_unjudged);
  st.count("input_stream_fault_positions", fs.in_faults); st.count("output_stream_fault_positions", fs.out_faults);
  st.count("faults_at_topo_prop_chunks_of_files_with_cells_and_props", fs.near_topo_prop);
  st.count("substitutions_skipped_declared_count_over_1e6", fs.skipped_huge);
  st.count("fault_evaluations", fs.truncations + fs.substitutions + fs.structure_edits + fs.in_faults + fs.out_faults);
  res.nontrivial = interesting && fs.near_topo_prop > 0;
  if (!fail.empty()) { res.ok = false; res.msg = oneline(fail); }
  (void)id;
  return res;
}

}  // namespace target

VF_DEFINE_MAIN
