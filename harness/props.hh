// Property bank for C03 / C12 / C17 / C04: live properties of five value types on
// all seven entity kinds, mirrored by a uid-keyed value model.
#pragma once
#include "interp.hh"
#include <OpenVolumeMesh/Attribs/ColorAttrib.hh>
#include <OpenVolumeMesh/Attribs/InterfaceAttrib.hh>
#include <OpenVolumeMesh/Attribs/StatusAttrib.hh>
#include <OpenVolumeMesh/Attribs/TexCoordAttrib.hh>
#include <memory>

namespace vf {

enum PKind { PK_V, PK_E, PK_HE, PK_F, PK_HF, PK_C, PK_M, PK_COUNT };
enum PType { PT_INT, PT_BOOL, PT_DOUBLE, PT_STRING, PT_VEC3D, PT_COUNT };
static const char *pkind_name[] = {"vertex", "edge", "halfedge", "face", "halfface", "cell", "mesh"};
static const char *ptype_name[] = {"int", "bool", "double", "string", "Vec3d"};

template <class T> T make_val(int code);
template <> inline int make_val<int>(int c) { return c * 3 - 7; }
template <> inline bool make_val<bool>(int c) { return (c & 1) != 0; }
template <> inline double make_val<double>(int c) { return c * 0.25 - 3.0; }
template <> inline std::string make_val<std::string>(int c) { return c ? "v" + std::to_string(c) : std::string(); }
template <> inline Vec3d make_val<Vec3d>(int c) { return Vec3d((double)c, 0.5 * c, -(double)c); }

struct PropBase {
  virtual ~PropBase() = default;
  virtual size_t size() const = 0;
  virtual bool equals(size_t idx, int code) const = 0;
  virtual void write(size_t idx, int code) = 0;
  virtual std::string show(size_t idx) const = 0;
  virtual bool attached() const = 0;
  virtual const void *identity() const = 0;
  virtual bool persistent() const = 0;
};

template <class T, class Tag> struct PropT : PropBase {
  PropertyPtr<T, Tag> p;
  explicit PropT(PropertyPtr<T, Tag> pp) : p(std::move(pp)) {}
  using H = typename PropertyPtr<T, Tag>::EntityHandleT;
  size_t size() const override { return p.size(); }
  bool equals(size_t idx, int code) const override { T v = p[H((int)idx)]; return v == make_val<T>(code); }
  void write(size_t idx, int code) override { p[H((int)idx)] = make_val<T>(code); }
  std::string show(size_t idx) const override {
    std::ostringstream o;
    T v = p[H((int)idx)];
    o << v;
    return o.str();
  }
  bool attached() const override { return (bool)p; }
  const void *identity() const override { return &p.data_vector(); }
  bool persistent() const override { return p.persistent(); }
};

template <class T, class Tag>
std::unique_ptr<PropBase> create_prop(PolyMesh &m, int flavour, const std::string &name, int defcode) {
  T def = make_val<T>(defcode);
  if (flavour == 1) return std::unique_ptr<PropBase>(new PropT<T, Tag>(m.template create_private_property<T, Tag>(name, def)));
  if (flavour == 2) {
    auto o = m.template create_persistent_property<T, Tag>(name, def);
    if (!o) return nullptr;
    return std::unique_ptr<PropBase>(new PropT<T, Tag>(*o));
  }
  return std::unique_ptr<PropBase>(new PropT<T, Tag>(m.template request_property<T, Tag>(name, def)));
}
template <class Tag>
std::unique_ptr<PropBase> create_prop_t(PolyMesh &m, int type, int flavour, const std::string &name, int defcode) {
  switch (type) {
  case PT_INT: return create_prop<int, Tag>(m, flavour, name, defcode);
  case PT_BOOL: return create_prop<bool, Tag>(m, flavour, name, defcode);
  case PT_DOUBLE: return create_prop<double, Tag>(m, flavour, name, defcode);
  case PT_STRING: return create_prop<std::string, Tag>(m, flavour, name, defcode);
  default: return create_prop<Vec3d, Tag>(m, flavour, name, defcode);
  }
}
inline std::unique_ptr<PropBase> create_prop_kt(PolyMesh &m, int kind, int type, int flavour, const std::string &name, int defcode) {
  switch (kind) {
  case PK_V: return create_prop_t<Entity::Vertex>(m, type, flavour, name, defcode);
  case PK_E: return create_prop_t<Entity::Edge>(m, type, flavour, name, defcode);
  case PK_HE: return create_prop_t<Entity::HalfEdge>(m, type, flavour, name, defcode);
  case PK_F: return create_prop_t<Entity::Face>(m, type, flavour, name, defcode);
  case PK_HF: return create_prop_t<Entity::HalfFace>(m, type, flavour, name, defcode);
  case PK_C: return create_prop_t<Entity::Cell>(m, type, flavour, name, defcode);
  default: return create_prop_t<Entity::Mesh>(m, type, flavour, name, defcode);
  }
}

// look a property up by name (shared properties only); nullptr if not found
template <class T, class Tag> std::unique_ptr<PropBase> find_prop(PolyMesh &m, const std::string &name) {
  auto o = m.template get_property<T, Tag>(name);
  if (!o) return nullptr;
  return std::unique_ptr<PropBase>(new PropT<T, Tag>(*o));
}
template <class Tag> std::unique_ptr<PropBase> find_prop_t(PolyMesh &m, int type, const std::string &name) {
  switch (type) {
  case PT_INT: return find_prop<int, Tag>(m, name);
  case PT_BOOL: return find_prop<bool, Tag>(m, name);
  case PT_DOUBLE: return find_prop<double, Tag>(m, name);
  case PT_STRING: return find_prop<std::string, Tag>(m, name);
  default: return find_prop<Vec3d, Tag>(m, name);
  }
}
inline std::unique_ptr<PropBase> find_prop_kt(PolyMesh &m, int kind, int type, const std::string &name) {
  switch (kind) {
  case PK_V: return find_prop_t<Entity::Vertex>(m, type, name);
  case PK_E: return find_prop_t<Entity::Edge>(m, type, name);
  case PK_HE: return find_prop_t<Entity::HalfEdge>(m, type, name);
  case PK_F: return find_prop_t<Entity::Face>(m, type, name);
  case PK_HF: return find_prop_t<Entity::HalfFace>(m, type, name);
  case PK_C: return find_prop_t<Entity::Cell>(m, type, name);
  default: return find_prop_t<Entity::Mesh>(m, type, name);
  }
}

// ---- attribute classes (C03 observes them too): views on StatusAttrib / ColorAttrib / TexCoordAttrib / InterfaceAttrib ----
// one set of attribute objects per mesh, shared by the views; the attributes own their properties under fixed names
struct AttribSet {
  PolyMesh &m;
  ColorAttrib<Geometry::Vec4f> col;
  TexCoordAttrib<Geometry::Vec2f> tex;
  InterfaceAttrib ifc;
  StatusAttrib st;
  static Geometry::Vec4f colv(int c) { return Geometry::Vec4f((float)c, 0.5f * (float)c, -(float)c, 1.0f); }
  static Geometry::Vec2f texv(int c) { return Geometry::Vec2f((float)c, -0.25f * (float)c); }
  static const int COLOR_DEF = 3;
  explicit AttribSet(PolyMesh &mesh) : m(mesh), col(mesh, colv(COLOR_DEF)), tex(mesh, texv(COLOR_DEF)), ifc(mesh), st(mesh) {}
};
enum AttribWhich { AT_COLOR, AT_STATUS, AT_INTERFACE, AT_TEXCOORD, AT_COUNT };
static const char *attrib_label[] = {"ColorAttrib<Vec4f>", "StatusAttrib(tagged/selected/hidden)", "InterfaceAttrib", "TexCoordAttrib<Vec2f>"};

template <class H, class Tag, class StoredT> struct AttribView : PropBase {
  std::shared_ptr<AttribSet> set;
  int which;
  std::string propname;
  AttribView(std::shared_ptr<AttribSet> s, int w, std::string pn) : set(std::move(s)), which(w), propname(std::move(pn)) {}
  size_t size() const override { auto q = set->m.template get_property<StoredT, Tag>(propname); return q ? q->size() : (size_t)-1; }
  static int status_code(const OpenVolumeMeshStatus &s) { return (s.tagged() ? 1 : 0) | (s.selected() ? 2 : 0) | (s.hidden() ? 4 : 0); }
  bool equals(size_t idx, int code) const override {
    H h((int)idx);
    const AttribSet &cs = *set;
    if constexpr (std::is_same<StoredT, Geometry::Vec4f>::value) return cs.col[h] == AttribSet::colv(code);
    else if constexpr (std::is_same<StoredT, Geometry::Vec2f>::value) return cs.tex[h] == AttribSet::texv(code);
    else if constexpr (std::is_same<StoredT, bool>::value) return (bool)cs.ifc[h] == ((code & 1) != 0);
    else return status_code(cs.st[h]) == (code & 7);
  }
  void write(size_t idx, int code) override {
    H h((int)idx);
    if constexpr (std::is_same<StoredT, Geometry::Vec4f>::value) set->col[h] = AttribSet::colv(code);
    else if constexpr (std::is_same<StoredT, Geometry::Vec2f>::value) set->tex[h] = AttribSet::texv(code);
    else if constexpr (std::is_same<StoredT, bool>::value) set->ifc[h] = (code & 1) != 0;
    else { auto &x = set->st[h]; x.set_tagged(code & 1); x.set_selected(code & 2); x.set_hidden(code & 4); }
  }
  std::string show(size_t idx) const override {
    std::ostringstream o;
    H h((int)idx);
    const AttribSet &cs = *set;
    if constexpr (std::is_same<StoredT, Geometry::Vec4f>::value) o << cs.col[h];
    else if constexpr (std::is_same<StoredT, Geometry::Vec2f>::value) o << cs.tex[h];
    else if constexpr (std::is_same<StoredT, bool>::value) o << (bool)cs.ifc[h];
    else o << "status bits " << status_code(cs.st[h]);
    return o.str();
  }
  bool attached() const override { return true; }
  const void *identity() const override { auto q = set->m.template get_property<StoredT, Tag>(propname); return q ? (const void *)&q->data_vector() : nullptr; }
  bool persistent() const override { auto q = set->m.template get_property<StoredT, Tag>(propname); return q && q->persistent(); }
};

template <class StoredT> std::unique_ptr<PropBase> attrib_view_k(std::shared_ptr<AttribSet> set, int which, int kind, const std::string &pn) {
  if (kind == PK_V) return std::unique_ptr<PropBase>(new AttribView<VertexHandle, Entity::Vertex, StoredT>(set, which, pn));
  if constexpr (!std::is_same<StoredT, Geometry::Vec2f>::value) {
    if (kind == PK_E) return std::unique_ptr<PropBase>(new AttribView<EdgeHandle, Entity::Edge, StoredT>(set, which, pn));
    if (kind == PK_F) return std::unique_ptr<PropBase>(new AttribView<FaceHandle, Entity::Face, StoredT>(set, which, pn));
  }
  if constexpr (std::is_same<StoredT, Geometry::Vec4f>::value || std::is_same<StoredT, OpenVolumeMeshStatus>::value) {
    if (kind == PK_HE) return std::unique_ptr<PropBase>(new AttribView<HalfEdgeHandle, Entity::HalfEdge, StoredT>(set, which, pn));
    if (kind == PK_HF) return std::unique_ptr<PropBase>(new AttribView<HalfFaceHandle, Entity::HalfFace, StoredT>(set, which, pn));
    if (kind == PK_C) return std::unique_ptr<PropBase>(new AttribView<CellHandle, Entity::Cell, StoredT>(set, which, pn));
  }
  return nullptr;
}

struct PropSlot {
  int kind, type, flavour, defcode;
  std::string name;
  std::map<int, int> val;                          // key (uid or 2*uid+side) -> value code; absent = default
  std::vector<std::unique_ptr<PropBase>> inst;     // one per sut
  bool mesh_value_known = true;
};

struct PropBank {
  Interp &I;
  std::vector<std::unique_ptr<PropSlot>> slots;
  int counter = 0;
  size_t max_slots = 12;
  explicit PropBank(Interp &i) : I(i) {}

  static int base_kind(int pk) { return pk == PK_V ? KV : (pk == PK_E || pk == PK_HE) ? KE : (pk == PK_F || pk == PK_HF) ? KF : KC; }
  static bool half(int pk) { return pk == PK_HE || pk == PK_HF; }

  int valcode(const PropSlot &s, int key) const {
    auto it = s.val.find(key);
    return it == s.val.end() ? s.defcode : it->second;
  }
  bool create(int kind, int type, int flavour, int defcode, std::string &render) {
    if (slots.size() >= max_slots) { I.count("skip:prop_slots_full"); return true; }
    std::unique_ptr<PropSlot> s(new PropSlot());
    s->kind = kind; s->type = type; s->flavour = flavour; s->defcode = defcode;
    s->name = std::string("p") + std::to_string(counter++) + "_" + pkind_name[kind] + "_" + ptype_name[type];
    for (auto &sut : I.suts) {
      auto p = create_prop_kt(sut->mesh, kind, type, flavour, s->name, defcode);
      if (!p) { I.set_fail("C14", "create_persistent_property(" + s->name + ") refused although the name is fresh"); return false; }
      s->inst.push_back(std::move(p));
    }
    static const char *fl[] = {"shared", "private", "persistent"};
    render = std::string("create ") + fl[flavour] + " " + ptype_name[type] + " " + pkind_name[kind] + " property '" + s->name + "' def=" + std::to_string(defcode);
    slots.push_back(std::move(s));
    return true;
  }
  // attribute-backed slot: which in AttribWhich; the kind is mapped to one the attribute offers
  std::vector<std::weak_ptr<AttribSet>> attrib_sets;  // one per sut (recreated when the last view was dropped)
  bool create_attrib(int which, int kindsel, std::string &render) {
    if (slots.size() >= max_slots) { I.count("skip:prop_slots_full"); return true; }
    which %= AT_COUNT;
    static const int k6[6] = {PK_V, PK_E, PK_HE, PK_F, PK_HF, PK_C}, k3[3] = {PK_V, PK_E, PK_F};
    int kind = which == AT_COLOR || which == AT_STATUS ? k6[kindsel % 6] : which == AT_INTERFACE ? k3[kindsel % 3] : PK_V;
    static const char *color_names[] = {"vertex_color", "edge_color", "halfedge_color", "face_color", "halfface_color", "cell_color", ""};
    static const char *status_names[] = {"vertex_status", "edge_status", "halfedge_status", "face_status", "halfface_status", "cell_status", ""};
    std::string pn = which == AT_COLOR ? color_names[kind] : which == AT_STATUS ? status_names[kind] : which == AT_INTERFACE ? "interface" : "vertex_texcoord";
    std::string name = std::string("attrib:") + attrib_label[which] + ":" + pkind_name[kind];
    for (auto &sp : slots) if (sp->name == name) { I.count("skip:attrib_slot_taken"); return true; }
    std::unique_ptr<PropSlot> s(new PropSlot());
    s->kind = kind; s->type = PT_INT; s->flavour = 3; s->name = name;
    s->defcode = (which == AT_COLOR || which == AT_TEXCOORD) ? AttribSet::COLOR_DEF : 0;
    attrib_sets.resize(I.suts.size());
    for (size_t i = 0; i < I.suts.size(); ++i) {
      std::shared_ptr<AttribSet> set = attrib_sets[i].lock();
      if (!set) { set = std::make_shared<AttribSet>(I.suts[i]->mesh); attrib_sets[i] = set; }
      std::unique_ptr<PropBase> v;
      if (which == AT_COLOR) v = attrib_view_k<Geometry::Vec4f>(set, which, kind, pn);
      else if (which == AT_STATUS) v = attrib_view_k<OpenVolumeMeshStatus>(set, which, kind, pn);
      else if (which == AT_INTERFACE) v = attrib_view_k<bool>(set, which, kind, pn);
      else v = attrib_view_k<Geometry::Vec2f>(set, which, kind, pn);
      if (!v) return true;
      s->inst.push_back(std::move(v));
    }
    render = "create attribute view " + name;
    I.count(std::string("attrib_slots:") + attrib_label[which]);
    slots.push_back(std::move(s));
    return true;
  }
  // write value to the k-th live entity of the property's kind
  bool write(int slot, int k, int code, std::string &render) {
    if (slots.empty()) { I.count("skip:no_prop"); return true; }
    PropSlot &s = *slots[(size_t)slot % slots.size()];
    int key = 0;
    if (s.kind != PK_M) {
      auto live = I.L.live(base_kind(s.kind));
      if (live.empty()) { I.count("skip:no_entity"); return true; }
      int uid = live[(size_t)k % live.size()];
      key = half(s.kind) ? 2 * uid + ((k / 7) & 1) : uid;
    }
    for (size_t i = 0; i < I.suts.size(); ++i) s.inst[i]->write(index_of(*I.suts[i], s, key), code);
    s.val[key] = code;
    render = "write '" + s.name + "'[key " + std::to_string(key) + "] = code " + std::to_string(code);
    return true;
  }
  void drop(int slot, std::string &render) {
    if (slots.empty()) return;
    size_t i = (size_t)slot % slots.size();
    // attribute objects own named shared (InterfaceAttrib: persistent) properties: a re-created view would see the
    // old values again, which is correct behaviour but outside this value model - attribute views are kept
    if (slots[i]->flavour == 3) { I.count("skip:drop_attrib_view"); return; }
    render = "drop handle of '" + slots[i]->name + "'";
    slots.erase(slots.begin() + (long)i);
  }
  size_t index_of(const Sut &sut, const PropSlot &s, int key) const {
    if (s.kind == PK_M) return 0;
    if (half(s.kind)) return (size_t)(2 * sut.lay.slot(base_kind(s.kind), key / 2) + (key & 1));
    return (size_t)sut.lay.slot(base_kind(s.kind), key);
  }
  void on_clear() {
    for (auto &s : slots) {
      s->val.clear();
      if (s->kind == PK_M) s->mesh_value_known = false;
    }
  }
  // size + value conformance of every live property; "" if fine
  std::string check(const Sut &sut, size_t sut_index) const {
    std::ostringstream o;
    for (auto &sp : slots) {
      const PropSlot &s = *sp;
      const PropBase &p = *s.inst[sut_index];
      if (s.kind == PK_M) {
        if (p.size() != 1) { o << "mesh property '" << s.name << "' has size " << p.size() << ", expected 1"; return o.str(); }
        if (s.mesh_value_known && !p.equals(0, valcode(s, 0))) { o << "mesh property '" << s.name << "' value " << p.show(0) << " != code " << valcode(s, 0); return o.str(); }
        continue;
      }
      int bk = base_kind(s.kind);
      size_t nslots = sut.lay.uid_at[bk].size() * (half(s.kind) ? 2 : 1);
      // attribute views find their property by name; after clear(true) the attribute's properties are anonymous
      // (still usable through the attribute): the size is then not observable, element access stays checked
      if (p.size() == (size_t)-1) I.count("attrib_size_not_observable_after_clear_props");
      else if (p.size() != nslots) {
        o << pkind_name[s.kind] << " property '" << s.name << "' has " << p.size() << " elements, mesh has " << nslots << " " << pkind_name[s.kind] << " slots";
        return o.str();
      }
      for (size_t i = 0; i < sut.lay.uid_at[bk].size(); ++i) {
        int uid = sut.lay.uid_at[bk][i];
        if (!I.L.alive(bk, uid)) continue;
        for (int side = 0; side < (half(s.kind) ? 2 : 1); ++side) {
          int key = half(s.kind) ? 2 * uid + side : uid;
          size_t idx = half(s.kind) ? 2 * i + (size_t)side : i;
          if (!p.equals(idx, valcode(s, key))) {
            o << pkind_name[s.kind] << " property '" << s.name << "' (" << ptype_name[s.type] << ") at handle " << idx << " (uid " << uid
              << (half(s.kind) ? (side ? " side 1" : " side 0") : "") << ") holds " << p.show(idx) << ", expected value code " << valcode(s, key)
              << (s.val.count(key) ? " (written earlier)" : " (the default)");
            return o.str();
          }
        }
      }
    }
    // vertex positions follow the same rule
    for (size_t i = 0; i < sut.lay.uid_at[KV].size(); ++i) {
      int uid = sut.lay.uid_at[KV][i];
      if (!I.L.alive(KV, uid)) continue;
      auto it = I.pos.find(uid);
      if (it == I.pos.end()) continue;
      const Vec3d &got = sut.mesh.vertex(VertexHandle((int)i));
      if (!(got == it->second)) { o << "position of vertex handle " << i << " (uid " << uid << ") is " << got << ", expected " << it->second; return o.str(); }
    }
    return "";
  }
  bool diverse_on(int bk) const {  // >=2 live props of different types incl. bool with a non-default value on this base kind
    std::set<int> types;
    bool written = false;
    for (auto &s : slots)
      if (s->kind != PK_M && base_kind(s->kind) == bk) { types.insert(s->type); written = written || !s->val.empty(); }
    return types.size() >= 2 && types.count(PT_BOOL) && written;
  }
};

}  // namespace vf
