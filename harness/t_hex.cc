// C16: hexahedral kernel - shape and halfface-order invariants, hex navigation, sheet circulators.
#include "common.hh"
#include "oracle_c01.hh"
#include "oracle_c05.hh"
#include "rcmain.hh"
#include <OpenVolumeMesh/Mesh/HexahedralMesh.hh>
#include <array>
#include <map>
#include <set>

using namespace vf;
using namespace OpenVolumeMesh;
using HexMesh = GeometricHexahedralMeshV3d;
using Vec3d = Geometry::Vec3d;
using HK = HexahedralMeshTopologyKernel;

namespace target {

enum HOp { H_ADD, H_READD_PERM, H_BAD_LIST, H_BAD_VALENCE, H_DEL_C, H_DEL_F, H_DEL_E, H_DEL_V, H_GC, H_DEFERRED, H_FAST, H_COUNT };
const std::vector<OpInfo> &optable() {
  static const std::vector<OpInfo> t = {{"add_hex", 5}, {"readd_permuted_halffaces", 4}, {"add_invalid_halfface_list", 4}, {"add_wrong_valence", 3},
                                        {"delete_cell", 1}, {"delete_face", 1}, {"delete_edge", 1}, {"delete_vertex", 1}, {"collect_garbage", 0},
                                        {"enable_deferred", 1}, {"enable_fast", 1}};
  return t;
}
std::vector<std::pair<int, int>> weights(const std::string &) {
  return {{30, H_ADD}, {10, H_READD_PERM}, {6, H_BAD_LIST}, {3, H_BAD_VALENCE}, {6, H_DEL_C}, {2, H_DEL_F}, {1, H_DEL_E}, {1, H_DEL_V}, {3, H_GC}, {2, H_DEFERRED}, {2, H_FAST}};
}
static std::string oneline(std::string s) { for (auto &c : s) if (c == '\n' || c == '\r') c = ' '; return s; }

// pattern coordinates of the documented vertex order
static const int PAT[8][3] = {{0, 0, 0}, {1, 0, 0}, {1, 1, 0}, {0, 1, 0}, {0, 0, 1}, {0, 1, 1}, {1, 1, 1}, {1, 0, 1}};
// the 24 rotations of the cube as signed permutation matrices with determinant +1
static std::vector<std::array<std::array<int, 3>, 3>> rotations() {
  std::vector<std::array<std::array<int, 3>, 3>> r;
  int perm[6][3] = {{0, 1, 2}, {0, 2, 1}, {1, 0, 2}, {1, 2, 0}, {2, 0, 1}, {2, 1, 0}};
  for (auto &p : perm)
    for (int s = 0; s < 8; ++s) {
      std::array<std::array<int, 3>, 3> m{};
      for (int i = 0; i < 3; ++i) m[(size_t)i][(size_t)p[i]] = (s >> i) & 1 ? -1 : 1;
      int det = m[0][0] * (m[1][1] * m[2][2] - m[1][2] * m[2][1]) - m[0][1] * (m[1][0] * m[2][2] - m[1][2] * m[2][0]) + m[0][2] * (m[1][0] * m[2][1] - m[1][1] * m[2][0]);
      if (det == 1) r.push_back(m);
    }
  return r;
}

struct HexState {
  HexMesh m;
  std::string fail;
  Stats *st = nullptr;
  uint64_t cell_checks = 0, sheet_checks = 0, reused_faces = 0, perm_accepts = 0, rejects = 0;
  bool setfail(const std::string &s) { if (fail.empty()) fail = s; return false; }
  std::vector<HalfEdgeHandle> HH(HalfFaceHandle h) const { return m.halfface(h).halfedges(); }
  std::array<int, 3> coord(VertexHandle v) const { auto p = m.vertex(v); return {(int)(p[0] + 0.5), (int)(p[1] + 0.5), (int)(p[2] + 0.5)}; }
  VertexHandle vertex_at(int x, int y, int z, bool create) {
    for (auto v : m.vertices()) { auto c = coord(v); if (c[0] == x && c[1] == y && c[2] == z) return v; }
    if (!create) return VertexHandle(-1);
    return m.add_vertex(Vec3d((double)x, (double)y, (double)z));
  }
  std::vector<int> hf_vertices(HalfFaceHandle h) const { std::vector<int> r; for (auto he : HH(h)) r.push_back(m.from_vertex_handle(he).idx()); return r; }
  std::set<std::array<int, 3>> cell_coords(CellHandle c) const { std::set<std::array<int, 3>> s; for (auto hf : m.cell(c).halffaces()) for (int v : hf_vertices(hf)) s.insert(coord(VertexHandle(v))); return s; }
  // live cells as lattice positions (min corner); -1 if not an axis-aligned unit cube
  std::multiset<std::array<int, 3>> cells() const {
    std::multiset<std::array<int, 3>> r;
    for (auto c : m.cells()) { auto s = cell_coords(c); r.insert(s.size() == 8 ? *s.begin() : std::array<int, 3>{-1, -1, -1}); }
    return r;
  }
  CellHandle cell_at(int x, int y, int z) const { for (auto c : m.cells()) { auto s = cell_coords(c); if (s.size() == 8 && *s.begin() == std::array<int, 3>{x, y, z}) return c; } return CellHandle(-1); }
  // halfface of cell c adjacent to hf across halfedge he (the one containing the opposite halfedge)
  HalfFaceHandle adj_in(CellHandle c, HalfFaceHandle hf, HalfEdgeHandle he) const {
    for (auto g : m.cell(c).halffaces()) { if (g == hf) continue; for (auto x : HH(g)) if (x == he.opposite_handle()) return g; }
    return HalfFaceHandle(-1);
  }

  bool check_all(const std::string &after) {
    std::ostringstream o;
    o << "after " << after << ": ";
    for (auto f : m.faces()) if (m.valence(f) != 4) { o << "face " << f.idx() << " has " << m.valence(f) << " edges"; return setfail(o.str()); }
    for (auto c : m.cells()) {
      if (m.valence(c) != 6) { o << "cell " << c.idx() << " has " << m.valence(c) << " faces"; return setfail(o.str()); }
      std::set<int> vs;
      for (auto hf : m.cell(c).halffaces()) for (int v : hf_vertices(hf)) vs.insert(v);
      if (vs.size() != 8) { o << "cell " << c.idx() << " has " << vs.size() << " distinct vertices"; return setfail(o.str()); }
    }
    C01Counters cc;
    std::string g = c01_check(m, cc);
    if (!g.empty()) { fail = "PREREQ " + g; return false; }
    for (auto c : m.cells()) if (!check_cell(c, o.str())) return false;
    return true;
  }

  bool check_cell(CellHandle c, const std::string &pre) {
    ++cell_checks;
    std::ostringstream o;
    o << pre << "cell " << c.idx() << ": ";
    auto hfs = m.cell(c).halffaces();
    for (int k = 0; k < 3; ++k) {
      auto a = hf_vertices(hfs[(size_t)2 * k]), b = hf_vertices(hfs[(size_t)2 * k + 1]);
      for (int x : a) if (std::count(b.begin(), b.end(), x)) { o << "halffaces " << 2 * k << " and " << 2 * k + 1 << " of the cell share vertex " << x << " (must be opposite sides)"; return setfail(o.str()); }
    }
    // walking around every halfface: orientations of the adjacent halffaces follow the layout's handedness
    for (unsigned char o1 = 0; o1 < 6; ++o1) {
      std::vector<int> seq;
      for (auto he : HH(hfs[o1])) { HalfFaceHandle g = adj_in(c, hfs[o1], he); if (!g.is_valid()) { o << "halfface " << (int)o1 << " of the cell has no neighbour across one of its halfedges (not a closed hex)"; return setfail(o.str()); } seq.push_back(m.orientation(g, c)); }
      if (o1 == 0) { std::vector<int> want{2, 4, 3, 5}; if (!is_rotation(seq, want)) { o << "walking around the first halfface meets halffaces " << vec_str(seq) << ", convention is the cyclic order [2,4,3,5]"; return setfail(o.str()); } }
      for (size_t i = 0; i < 4; ++i)
        if (seq[(i + 1) % 4] != HK::orthogonal_orientation(o1, (unsigned char)seq[i])) {
          o << "around halfface with orientation " << (int)o1 << " the neighbour after orientation " << seq[i] << " has orientation " << seq[(i + 1) % 4] << ", orthogonal_orientation says "
            << (int)HK::orthogonal_orientation(o1, (unsigned char)seq[i]); return setfail(o.str()); }
    }
    for (unsigned char i = 0; i < 6; ++i) {
      if (m.orientation(hfs[i], c) != i) { o << "orientation(halfface #" << (int)i << ") = " << (int)m.orientation(hfs[i], c); return setfail(o.str()); }
      if (m.opposite_halfface_handle_in_cell(hfs[i], c) != hfs[i ^ 1]) { o << "opposite_halfface_handle_in_cell(halfface #" << (int)i << ") is not halfface #" << (i ^ 1); return setfail(o.str()); }
      if (m.get_oriented_halfface(i, c) != hfs[i]) { o << "get_oriented_halfface(" << (int)i << ") wrong"; return setfail(o.str()); }
      if (HK::opposite_orientation(i) != (i ^ 1)) { o << "opposite_orientation(" << (int)i << ") wrong"; return setfail(o.str()); }
    }
    if (m.xfront_halfface(c) != hfs[0] || m.xback_halfface(c) != hfs[1] || m.yfront_halfface(c) != hfs[2] || m.yback_halfface(c) != hfs[3] || m.zfront_halfface(c) != hfs[4] || m.zback_halfface(c) != hfs[5]) {
      o << "x/y/z front/back accessors disagree with the stored halfface order"; return setfail(o.str()); }
    if (m.orientation(hfs[0].opposite_handle(), c) != HK::INVALID && std::find(hfs.begin(), hfs.end(), hfs[0].opposite_handle()) == hfs.end()) { o << "orientation() of a halfface that is not in the cell is not INVALID"; return setfail(o.str()); }
    // hex_vertices
    {
      std::vector<int> r;
      for (auto v : m.hex_vertices(c)) r.push_back(v.idx());
      std::set<int> rs(r.begin(), r.end()), cv;
      for (auto hf : hfs) for (int v : hf_vertices(hf)) cv.insert(v);
      auto f0 = hf_vertices(hfs[0]), f1 = hf_vertices(hfs[1]);
      if (r.size() != 8 || rs != cv) { o << "hex_vertices = " << vec_str(r) << " are not the cell's eight distinct vertices"; return setfail(o.str()); }
      if (r[0] != f0[0] || r[1] != f0[3] || r[2] != f0[2] || r[3] != f0[1]) { o << "hex_vertices first four " << vec_str(r) << " are not the first halfface's cycle " << vec_str(f0) << " against its order from the first halfedge's source"; return setfail(o.str()); }
      for (int k = 4; k < 8; ++k) if (!std::count(f1.begin(), f1.end(), r[(size_t)k])) { o << "hex_vertices last four are not the opposite halfface's vertices"; return setfail(o.str()); }
      static const int pr[4][2] = {{0, 4}, {1, 7}, {2, 6}, {3, 5}};
      for (auto &p : pr) {
        bool joined = false;
        for (auto hf : hfs) for (auto he : HH(hf)) if ((m.from_vertex_handle(he).idx() == r[(size_t)p[0]] && m.to_vertex_handle(he).idx() == r[(size_t)p[1]])) joined = true;
        for (auto hf : hfs) for (auto he : HH(hf)) if ((m.from_vertex_handle(he).idx() == r[(size_t)p[1]] && m.to_vertex_handle(he).idx() == r[(size_t)p[0]])) joined = true;
        if (!joined) { o << "hex_vertices positions " << p[0] << " and " << p[1] << " (" << r[(size_t)p[0]] << "," << r[(size_t)p[1]] << ") are not joined by an edge of the cell"; return setfail(o.str()); }
      }
      C05Ctx cx;
      cx.walk = {1, 1, 1, -1, 1, 1, 1, 1, 1, 1, -1, -1, 1, 1, 1, 1, 1, 1, 1, 1, 1, 1, 1, 1, 1, 1, 1, 1};
      std::string pm = circ_protocol("hex_vertices", c.idx(), [&](int L) { return m.hex_vertices(c, L); }, r, CM_EXACT, cx);
      if (!pm.empty()) { o << pm; return setfail(o.str()); }
    }
    // sheets
    for (unsigned char d = 0; d < 6; ++d) {
      std::vector<int> exp;
      for (unsigned char i = 0; i < 6; ++i) { if (i == d || i == (d ^ 1)) continue; CellHandle n = m.incident_cell(hfs[i].opposite_handle()); if (n.is_valid()) exp.push_back(n.idx()); }
      C05Ctx cx;
      cx.walk = {1, -1, 1, 1, 1, -1, 1, 1, 1, 1, 1, 1, 1, 1};
      ++sheet_checks;
      std::string pm = circ_protocol("cell_sheet_cells", c.idx() * 10 + d, [&](int L) { return m.cell_sheet_cells(c, d, L); }, uniq(exp), CM_SET, cx);
      if (!pm.empty()) { o << "direction " << (int)d << ": " << pm; return setfail(o.str()); }
      // halfface_sheet_halffaces(hf) for hf = the halfface with orientation d
      HalfFaceHandle hf = hfs[d];
      std::vector<int> got;
      for (auto x : m.halfface_sheet_halffaces(hf)) got.push_back(x.idx());
      std::set<int> gcells;
      auto hes = HH(hf);
      for (int g : got) {
        CellHandle n = m.incident_cell(HalfFaceHandle(g));
        bool shares = false;
        for (auto x : HH(HalfFaceHandle(g))) for (auto y : hes) if (x == y.opposite_handle()) shares = true;
        if (!n.is_valid() || !std::count(exp.begin(), exp.end(), n.idx()) || !shares) { o << "halfface_sheet_halffaces(" << hf.idx() << ") reports halfface " << g << " which is not a halfface of a sheet neighbour sharing an edge with it"; return setfail(o.str()); }
        if (m.orientation(HalfFaceHandle(g), n) == HK::INVALID) { o << "halfface_sheet_halffaces reports a halfface that is not in its cell"; return setfail(o.str()); }
        gcells.insert(n.idx());
      }
      std::set<int> ecells(exp.begin(), exp.end());
      if (gcells != ecells) { o << "halfface_sheet_halffaces(" << hf.idx() << ") covers neighbour cells " << vec_str(std::vector<int>(gcells.begin(), gcells.end())) << ", the sheet neighbours are " << vec_str(uniq(exp)); return setfail(o.str()); }
      // several laps: the single-lap sequence, repeated (the circulator honours max_laps like every other one)
      for (int L = 2; L <= 3; ++L) {
        std::vector<int> gl, want;
        for (auto x : m.halfface_sheet_halffaces(hf, L)) gl.push_back(x.idx());
        for (int r = 0; r < L; ++r) want.insert(want.end(), got.begin(), got.end());
        if (gl != want) { o << "halfface_sheet_halffaces(" << hf.idx() << ", max_laps=" << L << ") visits " << gl.size() << " halffaces, expected the single-lap sequence of " << got.size() << " repeated " << L << " times"; return setfail(o.str()); }
      }
      if (got.size() != uniq(exp).size() && exp.size() == uniq(exp).size()) { o << "halfface_sheet_halffaces(" << hf.idx() << ") reports " << got.size() << " halffaces for " << uniq(exp).size() << " neighbours"; return setfail(o.str()); }
      // adjacent_halfface_on_sheet agrees with the same neighbour relation
      for (auto he : hes) {
        HalfFaceHandle s = m.adjacent_halfface_on_sheet(hf, he);
        HalfFaceHandle side = adj_in(c, hf, he);
        CellHandle n = m.incident_cell(side.opposite_handle());
        if (n.is_valid() && n != c) {
          HalfFaceHandle expT = adj_in(n, side.opposite_handle(), he);  // contains opposite(he)
          if (s != expT) { o << "adjacent_halfface_on_sheet(" << hf.idx() << "," << he.idx() << ") = " << s.idx() << ", the continuation of the sheet in the neighbour cell is " << expT.idx(); return setfail(o.str()); }
        }
      }
    }
    return true;
  }
};

vf::CaseResult run_case(const std::string &id, const Program &prog, Stats &st) {
  CaseResult res;
  HexState S;
  S.st = &st;
  static const auto ROT = rotations();
  if (!prog.empty()) { S.m.enable_deferred_deletion(prog[0].a[4] & 1); S.m.enable_fast_deletion(prog[0].a[4] & 2); }
  // orthogonal_orientation is the cross product of the axis directions
  {
    auto axis = [](int o) { std::array<int, 3> v{0, 0, 0}; v[(size_t)o / 2] = (o & 1) ? -1 : 1; return v; };
    for (unsigned char a = 0; a < 6 && S.fail.empty(); ++a)
      for (unsigned char b = 0; b < 6; ++b) {
        auto x = axis(a), y = axis(b);
        std::array<int, 3> cr{x[1] * y[2] - x[2] * y[1], x[2] * y[0] - x[0] * y[2], x[0] * y[1] - x[1] * y[0]};
        unsigned char exp = HK::INVALID;
        for (int o = 0; o < 6; ++o) if (axis(o) == cr) exp = (unsigned char)o;
        if (HK::orthogonal_orientation(a, b) != exp) S.setfail("orthogonal_orientation(" + std::to_string(a) + "," + std::to_string(b) + ") = " + std::to_string(HK::orthogonal_orientation(a, b)) + ", cross-product rule gives " + std::to_string(exp));
      }
  }
  auto lattice_pos = [](const int *a, int k) { return std::array<int, 3>{a[k] % 4, a[k + 1] % 3, a[k + 2] % 3}; };
  // the six halffaces (pointing into the cube) of lattice cube p, if all exist
  auto cube_halffaces = [&](std::array<int, 3> p, std::vector<HalfFaceHandle> &out) {
    out.clear();
    static const int F[6][4] = {{3, 2, 1, 0}, {7, 6, 5, 4}, {1, 2, 6, 7}, {4, 5, 3, 0}, {1, 7, 4, 0}, {2, 3, 5, 6}};
    for (auto &f : F) {
      std::vector<VertexHandle> vs;
      for (int i : f) { VertexHandle v = S.vertex_at(p[0] + PAT[i][0], p[1] + PAT[i][1], p[2] + PAT[i][2], false); if (!v.is_valid()) return false; vs.push_back(v); }
      HalfFaceHandle h = S.m.find_halfface_extensive(vs);
      if (!h.is_valid()) return false;
      out.push_back(h);
    }
    return true;
  };
  for (size_t i = 0; i < prog.size() && S.fail.empty(); ++i) {
    const Op &op = prog[i];
    const int *a = op.a;
    std::string annot = optable()[(size_t)op.code].name;
    st.count(std::string("op:") + optable()[(size_t)op.code].name);
    switch (op.code) {
    case H_ADD: {
      auto p = lattice_pos(a, 0);
      if (S.cell_at(p[0], p[1], p[2]).is_valid()) { st.count("skip:occupied"); break; }
      const auto &R = ROT[(size_t)a[3] % ROT.size()];
      std::vector<VertexHandle> vs;
      for (int k = 0; k < 8; ++k) {
        int q[3];
        for (int r = 0; r < 3; ++r) { int acc = 0; for (int c = 0; c < 3; ++c) acc += R[(size_t)r][(size_t)c] * (2 * PAT[k][c] - 1); q[r] = (acc + 1) / 2; }
        vs.push_back(S.vertex_at(p[0] + q[0], p[1] + q[1], p[2] + q[2], true));
      }
      size_t nf = S.m.n_logical_faces();
      auto before = S.cells();
      bool check = a[4] & 4;
      CellHandle c = S.m.add_cell(vs, check);
      std::ostringstream o;
      o << "add_cell(8 vertices of lattice cube " << p[0] << p[1] << p[2] << ", rotation #" << a[3] % (int)ROT.size() << (check ? ",check" : "") << ")";
      annot = o.str();
      if (!c.is_valid()) { S.setfail(annot + ": valid hexahedron rejected"); break; }
      before.insert(p);
      if (S.cells() != before) { S.setfail(annot + ": cells afterwards are not the former cells plus the new cube"); break; }
      if (S.m.n_logical_faces() - nf < 6) ++S.reused_faces;
      break;
    }
    case H_READD_PERM: case H_BAD_LIST: {
      std::vector<CellHandle> l;
      for (auto c : S.m.cells()) l.push_back(c);
      if (l.empty()) { st.count("skip:no_cell"); break; }
      CellHandle c = l[(size_t)a[0] % l.size()];
      auto cc = S.cell_coords(c);
      if (cc.size() != 8) break;
      auto p = *cc.begin();
      std::vector<HalfFaceHandle> hfs = S.m.cell(c).halffaces();
      S.m.delete_cell(c);
      std::vector<HalfFaceHandle> cur;
      if (!cube_halffaces(p, cur)) { st.count("skip:faces_gone"); break; }
      // generated permutation of the six halffaces
      std::vector<HalfFaceHandle> perm = cur;
      for (int j = 5; j > 0; --j) std::swap(perm[(size_t)j], perm[(size_t)((a[1] * 31 + j * 17 + a[2]) % (j + 1))]);
      auto before = S.cells();
      size_t nc = S.m.n_cells(), nf = S.m.n_faces();
      std::ostringstream o;
      if (op.code == H_READD_PERM) {
        CellHandle n = S.m.add_cell(perm, true);
        o << "add_cell(permuted valid halfface list of cube " << p[0] << p[1] << p[2] << ", check)";
        annot = o.str();
        if (!n.is_valid()) { S.setfail(annot + ": a permuted but valid halfface list is rejected"); break; }
        before.insert(p);
        if (S.cells() != before) { S.setfail(annot + ": cells afterwards are not the former cells plus the cube"); break; }
        ++S.perm_accepts;
      } else {
        const char *what = "";
        switch (a[3] % 4) {
        case 0: perm[(size_t)a[1] % 6] = perm[(size_t)a[1] % 6].opposite_handle(); what = "one halfface flipped"; break;
        case 1: perm[(size_t)a[1] % 6] = perm[(size_t)(a[1] + 1) % 6]; what = "one halfface doubled"; break;
        case 2: { std::vector<HalfFaceHandle> all; for (auto h : S.m.halffaces()) if (std::find(cur.begin(), cur.end(), h) == cur.end() && !S.m.incident_cell(h).is_valid()) all.push_back(h);
                  if (all.empty()) { what = 0; break; } perm[(size_t)a[1] % 6] = all[(size_t)a[2] % all.size()]; what = "one halfface replaced by a foreign one"; break; }
        default: perm.pop_back(); what = "one halfface dropped"; break;
        }
        if (!what) { st.count("skip:no_foreign_halfface"); break; }
        CellHandle n = S.m.add_cell(perm, true);
        o << "add_cell(invalid halfface list for cube " << p[0] << p[1] << p[2] << ": " << what << ", check)";
        annot = o.str();
        ++S.rejects;
        // closed-surface predicate (the replaced list may by chance still be a valid hex)
        std::map<int, int> cnt;
        for (auto h : perm) for (auto he : S.HH(h)) cnt[he.idx()]++;
        bool closed = perm.size() == 6;
        for (auto &kv : cnt) if (kv.second != 1 || !cnt.count(kv.first ^ 1)) closed = false;
        if (closed) { if (!n.is_valid()) S.setfail(annot + ": list is a closed hexahedral surface but is rejected"); break; }
        if (n.is_valid()) { S.setfail(annot + ": accepted"); break; }
        if (S.m.n_cells() != nc || S.m.n_faces() != nf || S.cells() != before) { S.setfail(annot + ": rejected call changed the mesh"); break; }
      }
      break;
    }
    case H_BAD_VALENCE: {
      size_t nf = S.m.n_faces(), nc = S.m.n_cells(), ne = S.m.n_edges();
      std::vector<VertexHandle> lv;
      for (auto v : S.m.vertices()) lv.push_back(v);
      if (lv.size() < 5) break;
      ++S.rejects;
      std::vector<VertexHandle> vs;
      int n = (a[0] & 1) ? 3 : 5;
      for (int j = 0; j < n; ++j) vs.push_back(lv[(size_t)(a[1] + j) % lv.size()]);
      if (S.m.add_face(vs).is_valid()) S.setfail("add_face with " + std::to_string(n) + " vertices accepted by the hexahedral kernel");
      if (S.m.n_faces() >= 5) {
        std::vector<HalfFaceHandle> hs;
        for (int j = 0; j < 5 + 2 * (a[2] & 1); ++j) { FaceHandle f((int)((size_t)(a[1] + j) % S.m.n_faces())); if (!S.m.is_deleted(f)) hs.push_back(S.m.halfface_handle(f, 0)); }
        if (hs.size() != 6 && S.m.add_cell(hs, a[2] & 2).is_valid()) S.setfail("add_cell with " + std::to_string(hs.size()) + " halffaces accepted by the hexahedral kernel");
      }
      if (S.fail.empty() && (S.m.n_faces() != nf || S.m.n_cells() != nc || S.m.n_edges() != ne)) S.setfail("rejected wrong-valence add changed the mesh");
      annot = "wrong-valence add_face / add_cell";
      break;
    }
    case H_DEL_C: { std::vector<CellHandle> l; for (auto c : S.m.cells()) l.push_back(c); if (!l.empty()) S.m.delete_cell(l[(size_t)a[0] % l.size()]); break; }
    case H_DEL_F: { std::vector<FaceHandle> l; for (auto f : S.m.faces()) l.push_back(f); if (!l.empty()) S.m.delete_face(l[(size_t)a[0] % l.size()]); break; }
    case H_DEL_E: { std::vector<EdgeHandle> l; for (auto e : S.m.edges()) l.push_back(e); if (!l.empty()) S.m.delete_edge(l[(size_t)a[0] % l.size()]); break; }
    case H_DEL_V: { std::vector<VertexHandle> l; for (auto v : S.m.vertices()) l.push_back(v); if (!l.empty()) S.m.delete_vertex(l[(size_t)a[0] % l.size()]); break; }
    case H_GC: S.m.collect_garbage(); break;
    case H_DEFERRED: S.m.enable_deferred_deletion(a[0] & 1); break;
    case H_FAST: S.m.enable_fast_deletion(a[0] & 1); break;
    default: break;
    }
    res.annot.push_back(annot);
    if (S.fail.empty()) S.check_all(annot);
  }
  st.count("cell_checks", S.cell_checks); st.count("sheet_checks", S.sheet_checks); st.count("adds_reusing_existing_faces", S.reused_faces);
  st.count("permuted_lists_accepted", S.perm_accepts); st.count("rejected_adds", S.rejects);
  res.nontrivial = S.m.n_logical_cells() >= 3 && (S.reused_faces > 0 || S.perm_accepts > 0);
  if (!S.fail.empty()) {
    if (S.fail.rfind("PREREQ", 0) == 0) st.count("discarded_prereq_C01");
    else if (id != "C11") { res.ok = false; res.msg = oneline(S.fail); }
    else {
      // run under C11 (construction validates, hexahedral kernel): only the acceptance / rejection verdicts count
      static const char *mine[] = {"rejected", "accepted", "changed the mesh", "cells afterwards are not the former cells plus"};
      bool own = false;
      for (auto k : mine) if (S.fail.find(k) != std::string::npos) own = true;
      if (own) { res.ok = false; res.msg = oneline(S.fail); }
      else st.count("discarded_owner_C16");
    }
  }
  return res;
}

}  // namespace target

VF_DEFINE_MAIN
