// C07, binary reader: libFuzzer target with a semantic post-condition.
// byte 0 selects mesh type x topology_check x bottom_up x input mode:
//   mode A: the remaining bytes are the file
//   mode B (structure-aware): the remaining bytes are an edit script (boundary values in numeric header / chunk-header /
//           sub-header fields, chunk drop / duplicate / exchange, truncation, byte splices) applied to a valid file
//           produced by the reference encoder from one of several built-in meshes.
#include "fuzz_common.hh"
#include "ovmb_ref.hh"
#include <OpenVolumeMesh/IO/ovmb_read.hh>
#include <OpenVolumeMesh/Mesh/HexahedralMesh.hh>
#include <OpenVolumeMesh/Mesh/PolyhedralMesh.hh>
#include <OpenVolumeMesh/Mesh/TetrahedralMesh.hh>
#include <fuzzer/FuzzedDataProvider.h>
#include <sstream>

using namespace OpenVolumeMesh;
using ovmbref::Bytes;

static std::vector<Bytes> &bases() {
  static std::vector<Bytes> b;
  if (!b.empty()) return b;
  auto tetmesh = [](int ntets, int topo) {
    ovmbref::RefMesh m;
    m.topo_type = (uint8_t)topo;
    m.nv = (uint64_t)ntets + 3;
    for (uint64_t i = 0; i < m.nv; ++i) { m.pos.push_back((double)i); m.pos.push_back((double)(i * i % 5)); m.pos.push_back((double)(i % 3)); }
    // tets (i,i+1,i+2,i+3): build edges / faces on demand
    std::map<std::pair<uint32_t, uint32_t>, uint32_t> em;
    auto he = [&](uint32_t a, uint32_t b) { auto k = std::make_pair(std::min(a, b), std::max(a, b)); if (!em.count(k)) { em[k] = (uint32_t)m.edges.size(); m.edges.emplace_back(k.first, k.second); } return 2 * em[k] + (a == k.first ? 0u : 1u); };
    std::map<std::vector<uint32_t>, uint32_t> fm;
    auto hf = [&](uint32_t a, uint32_t b, uint32_t c) {
      std::vector<uint32_t> key{a, b, c}; std::sort(key.begin(), key.end());
      if (!fm.count(key)) { fm[key] = (uint32_t)m.faces.size(); m.faces.push_back({he(a, b), he(b, c), he(c, a)}); return 2 * fm[key]; }
      // orientation of the stored face
      const auto &f = m.faces[fm[key]];
      for (int r = 0; r < 3; ++r) if (f[(size_t)r] == he(a, b) && f[(size_t)(r + 1) % 3] == he(b, c)) return 2 * fm[key];
      return 2 * fm[key] + 1;
    };
    for (uint32_t i = 0; i < (uint32_t)ntets; ++i) m.cells.push_back({hf(i, i + 1, i + 2), hf(i, i + 2, i + 3), hf(i, i + 3, i + 1), hf(i + 1, i + 3, i + 2)});
    return m;
  };
  auto addprops = [](ovmbref::RefMesh &m) {
    ovmbref::RefProp p; p.entity = 0; p.name = "vd"; p.type_name = "d"; p.def = Bytes(8, 0);
    for (uint64_t i = 0; i < m.nv; ++i) { ovmbref::W w; w.f64(0.5 * (double)i); p.elems.push_back(w.b); }
    m.props.push_back(p);
    ovmbref::RefProp q; q.entity = 3; q.name = "cb"; q.type_name = "b"; q.def = Bytes{1};
    for (size_t i = 0; i < m.cells.size(); ++i) q.elems.push_back(Bytes{(uint8_t)(i & 1)});
    m.props.push_back(q);
    ovmbref::RefProp s; s.entity = 5; s.name = "hs"; s.type_name = "s32"; { ovmbref::W w; w.u32(2); w.str("ab"); s.def = w.b; }
    for (size_t i = 0; i < 2 * m.faces.size(); ++i) { ovmbref::W w; std::string t(i % 3, 'x'); w.u32((uint32_t)t.size()); w.str(t); s.elems.push_back(w.b); }
    m.props.push_back(s);
    ovmbref::RefProp h; h.entity = 1; h.name = "eh"; h.type_name = "3i32"; h.def = Bytes(12, 0);
    for (size_t i = 0; i < m.edges.size(); ++i) { ovmbref::W w; w.u32((uint32_t)i); w.u32(7); w.u32(0xffffffffu); h.elems.push_back(w.b); }
    m.props.push_back(h);
  };
  for (int variant = 0; variant < 6; ++variant) {
    ovmbref::RefMesh m = tetmesh(1 + variant % 3, variant < 3 ? 1 : 0);
    if (variant != 0) addprops(m);
    ovmbref::EncodeOptions o;
    o.vert_spans = 1 + variant % 2; o.face_spans = 1 + variant / 3; o.prop_spans = 1 + variant % 2; o.props_interleaved = variant & 1; o.optional_chunks = variant == 4;
    o.force_variable_valence = variant == 5; o.handle_offsets = variant == 2;
    b.push_back(ovmbref::ref_encode(m, o));
  }
  return b;
}

struct ChunkPos { size_t begin, payload, end; };
static std::vector<ChunkPos> chunks_of(const Bytes &b) {
  std::vector<ChunkPos> r;
  size_t p = 48;
  while (p + 16 <= b.size()) {
    uint64_t len = 0;
    for (int i = 0; i < 8; ++i) len |= (uint64_t)b[p + 8 + (size_t)i] << (8 * i);
    if (len > b.size() || p + 16 + len > b.size()) break;
    r.push_back({p, p + 16, p + 16 + (size_t)len});
    p += 16 + (size_t)len;
  }
  return r;
}

static Bytes apply_edits(FuzzedDataProvider &fdp) {
  auto &bs = bases();
  Bytes f = bs[fdp.ConsumeIntegralInRange<size_t>(0, bs.size() - 1)];
  int nedits = fdp.ConsumeIntegralInRange<int>(1, 6);
  static const uint64_t boundary[] = {0, 1, 2, 0x7f, 0x80, 0xfe, 0xff, 0x100, 0xffff, 0x10000, 0x7fffffff, 0x80000000ull, 0xffffffffull, 0xffffffffffffffffull};
  for (int e = 0; e < nedits && fdp.remaining_bytes() > 0; ++e) {
    auto ch = chunks_of(f);
    int kind = fdp.ConsumeIntegralInRange<int>(0, 8);
    if (kind <= 3) {  // numeric field substitution: pick a field start in the file header or a chunk (sub-)header
      std::vector<std::pair<size_t, int>> fields = {{8, 1}, {9, 1}, {10, 1}, {11, 1}, {12, 4}, {16, 8}, {24, 8}, {32, 8}, {40, 8}};
      for (auto &c : ch) {
        fields.push_back({c.begin, 4}); fields.push_back({c.begin + 4, 1}); fields.push_back({c.begin + 5, 1}); fields.push_back({c.begin + 6, 1}); fields.push_back({c.begin + 7, 1}); fields.push_back({c.begin + 8, 8});
        for (size_t off : {0u, 8u, 12u, 13u, 14u, 15u, 16u}) if (c.payload + off + 1 <= c.end) fields.push_back({c.payload + off, off == 0 || off == 16 ? 8 : off == 8 ? 4 : 1});
      }
      auto fld = fields[fdp.ConsumeIntegralInRange<size_t>(0, fields.size() - 1)];
      uint64_t v = boundary[fdp.ConsumeIntegralInRange<size_t>(0, sizeof(boundary) / sizeof(boundary[0]) - 1)];
      if (kind == 3) {  // original +- 1
        uint64_t orig = 0;
        for (int i = 0; i < fld.second && fld.first + (size_t)i < f.size(); ++i) orig |= (uint64_t)f[fld.first + (size_t)i] << (8 * i);
        v = orig + (fdp.ConsumeBool() ? 1 : (uint64_t)-1);
      }
      for (int i = 0; i < fld.second && fld.first + (size_t)i < f.size(); ++i) f[fld.first + (size_t)i] = (uint8_t)(v >> (8 * i));
    } else if (kind == 4 && !ch.empty()) {  // drop / duplicate / exchange a chunk
      size_t i = fdp.ConsumeIntegralInRange<size_t>(0, ch.size() - 1);
      Bytes c(f.begin() + (long)ch[i].begin, f.begin() + (long)ch[i].end);
      int how = fdp.ConsumeIntegralInRange<int>(0, 2);
      if (how == 0) f.erase(f.begin() + (long)ch[i].begin, f.begin() + (long)ch[i].end);
      else if (how == 1) f.insert(f.begin() + (long)ch[i].begin, c.begin(), c.end());
      else { size_t j = fdp.ConsumeIntegralInRange<size_t>(0, ch.size() - 1); f.insert(f.begin() + (long)ch[j].begin, c.begin(), c.end()); }
    } else if (kind == 8 && !ch.empty()) {  // shorten a chunk's body but keep the framing consistent (length and padding recomputed)
      size_t i = fdp.ConsumeIntegralInRange<size_t>(0, ch.size() - 1);
      size_t pad = f[ch[i].begin + 5], body = ch[i].end - ch[i].payload >= pad ? ch[i].end - ch[i].payload - pad : 0;
      static const size_t cuts[] = {0, 12, 16, 24, 32};
      size_t nb = fdp.ConsumeBool() ? std::min(body, cuts[fdp.ConsumeIntegralInRange<size_t>(0, 4)]) : fdp.ConsumeIntegralInRange<size_t>(0, body);
      size_t npad = (8 - nb % 8) % 8;
      Bytes c(f.begin() + (long)ch[i].begin, f.begin() + (long)(ch[i].payload + nb));
      // optionally also change one of the one-byte enum / valence fields of the sub-header (entity, valence, encodings):
      // a body that is consistent with a *different* encoding is only reachable by changing both at once
      if (fdp.ConsumeBool() && c.size() >= 16 + 16) c[16 + 12 + fdp.ConsumeIntegralInRange<size_t>(0, 3)] = (uint8_t)fdp.ConsumeIntegralInRange<int>(0, 4);
      c[5] = (uint8_t)npad;
      uint64_t nl = nb + npad;
      for (int k = 0; k < 8; ++k) c[8 + (size_t)k] = (uint8_t)(nl >> (8 * k));
      c.insert(c.end(), npad, 0);
      f.erase(f.begin() + (long)ch[i].begin, f.begin() + (long)ch[i].end);
      f.insert(f.begin() + (long)ch[i].begin, c.begin(), c.end());
    } else if (kind == 5) {  // truncate
      f.resize(fdp.ConsumeIntegralInRange<size_t>(0, f.size()));
    } else if (kind == 6 && !f.empty()) {  // overwrite a few raw bytes
      size_t at = fdp.ConsumeIntegralInRange<size_t>(0, f.size() - 1);
      auto raw = fdp.ConsumeBytes<uint8_t>(fdp.ConsumeIntegralInRange<size_t>(1, 8));
      for (size_t i = 0; i < raw.size() && at + i < f.size(); ++i) f[at + i] = raw[i];
    } else if (!f.empty()) {  // insert / delete a byte range
      size_t at = fdp.ConsumeIntegralInRange<size_t>(0, f.size() - 1);
      if (fdp.ConsumeBool()) { auto raw = fdp.ConsumeBytes<uint8_t>(fdp.ConsumeIntegralInRange<size_t>(1, 16)); f.insert(f.begin() + (long)at, raw.begin(), raw.end()); }
      else f.erase(f.begin() + (long)at, f.begin() + (long)std::min(f.size(), at + fdp.ConsumeIntegralInRange<size_t>(1, 16)));
    }
  }
  return f;
}

template <class M> void run_one(const Bytes &file, bool check, bool bu, bool nontrivial) {
  M m;
  std::istringstream ss(std::string(file.begin(), file.end()), std::ios::binary);
  IO::ReadOptions ro;
  ro.topology_check = check;
  ro.bottom_up_incidences = bu;
  IO::ReadResult r;
  try { r = IO::ovmb_read(ss, m, ro); }
  catch (std::bad_alloc &) { ++fz::C().exceptions; return; }     // allowed: a declared size that cannot be allocated
  catch (std::length_error &) { ++fz::C().exceptions; return; }  // (vector::reserve / resize beyond max_size)
  catch (std::exception &e) { fz::violation((std::string("ovmb_read let an exception escape that is not an allocation failure: ") + e.what()).c_str()); }
  if (r == IO::ReadResult::Ok) {
    ++fz::C().success;
    if (fz::C().sample_ok.empty() || (nontrivial && fz::C().success % 997 == 0)) fz::C().sample_ok = fz::hexhead(file.data(), file.size());
    fz::validate_success(m);
  } else {
    ++fz::C().failure;
    if (nontrivial && (fz::C().sample_rej.empty() || fz::C().failure % 9973 == 0)) fz::C().sample_rej = fz::hexhead(file.data(), file.size());
  }
}

extern "C" int LLVMFuzzerTestOneInput(const uint8_t *data, size_t size) {
  fz::tick();
  if (size < 2) return 0;
  uint8_t sel = data[0];
  Bytes file;
  if (sel & 0x80) { FuzzedDataProvider fdp(data + 1, size - 1); file = apply_edits(fdp); ++fz::C().structured; }
  else file.assign(data + 1, data + size);
  static const uint8_t magic[8] = {'O', 'V', 'M', 'B', 0x0a, 0x0d, 0x0a, 0xff};
  bool header_ok = file.size() >= 48 && memcmp(file.data(), magic, 8) == 0 && file[9] == 1 && file[11] <= 2 && !file[12] && !file[13] && !file[14] && !file[15];
  if (header_ok) {
    for (int k = 0; k < 4; ++k) { uint64_t v = 0; for (int i = 0; i < 8; ++i) v |= (uint64_t)file[16 + 8 * (size_t)k + (size_t)i] << (8 * i); if (v > 100000) { ++fz::C().skipped_huge; return 0; } }
    ++fz::C().passed_header;
    bool topo = false, prop = false;
    for (auto &c : chunks_of(file)) { if (!memcmp(&file[c.begin], "TOPO", 4)) topo = true; if (!memcmp(&file[c.begin], "PROP", 4)) prop = true; }
    if (topo) ++fz::C().reached_topo;
    if (prop) ++fz::C().reached_prop;
    if (fz::C().nontrivial.size() < 2000000) fz::C().nontrivial.insert(vf::fnv1a(file.data(), file.size()));
  }
  bool check = sel & 8, bu = sel & 16;
  switch (sel % 3) {
  case 0: run_one<GeometricPolyhedralMeshV3d>(file, check, bu, header_ok); break;
  case 1: run_one<GeometricTetrahedralMeshV3d>(file, check, bu, header_ok); break;
  default: run_one<GeometricHexahedralMeshV3d>(file, check, bu, header_ok); break;
  }
  return 0;
}
