// C07, ASCII reader: libFuzzer target with a semantic post-condition.
// byte 0: mesh type x topology_check x bottom_up x mode (A raw text / B edit script on a valid file:
// tokens / lines dropped, repeated, replaced by non-numeric text or boundary numbers).
#include "ascii_shim.hh"
#include "fuzz_common.hh"
#include <fuzzer/FuzzedDataProvider.h>
#include <sstream>

using namespace OpenVolumeMesh;

static const char *BASES[] = {
    "OVM ASCII\nVertices\n4\n0 0 0\n1 0 0\n0 1 0\n0 0 1\nEdges\n6\n0 1\n1 2\n2 0\n0 3\n1 3\n2 3\nFaces\n4\n3 0 2 4\n3 1 9 6\n3 3 11 2\n3 5 8 10\nPolyhedra\n1\n4 1 3 5 7\n"
    "VProp int \"vi\"\n1\n2\n3\n4\nCProp string \"cs\"\n3:a b\nHFProp bool \"hb\"\n1\n0\n1\n0\n1\n0\n1\n0\nEProp vec3d \"ev\"\n0 0 1\n1 1 1\n2 2 2\n3 3 3\n4 4 4\n5 5 5\nMProp double \"md\"\n2.5\n",
    "OVM ASCII\nVertices\n3\n0 0 0\n1 0 0\n0 1 0\nEdges\n3\n0 1\n1 2\n2 0\nFaces\n1\n3 0 2 4\nPolyhedra\n0\nFProp vector_double \"fv\"\n2\n1.5\n2.5\nHEProp map_heh_int \"hm\"\n1\n0\n7\n0\n0\n0\n0\n0\n",
    "OVM ASCII\nVertices\n8\n0 0 0\n1 0 0\n1 1 0\n0 1 0\n0 0 1\n0 1 1\n1 1 1\n1 0 1\nEdges\n12\n0 1\n1 2\n2 3\n3 0\n4 7\n7 6\n6 5\n5 4\n0 4\n1 7\n2 6\n3 5\nFaces\n6\n4 7 5 3 1\n4 8 10 12 14\n4 2 20 11 19\n4 16 15 23 6\n4 0 18 9 17\n4 4 22 13 21\nPolyhedra\n1\n6 0 2 4 6 8 10\n",
};

static std::string apply_edits(FuzzedDataProvider &fdp) {
  std::string f = BASES[fdp.ConsumeIntegralInRange<size_t>(0, 2)];
  static const char *repl[] = {"abc", "-1", "0", "4294967295", "4294967296", "1e30", "nan", "", "\"", "999999", "1000000", "3:", "Faces", "0x10", "+", "2147483648",
                               "1", "2", "3", "4", "5", "6", "7", "8", "9", "10", "11", "12"};  // other valid indices: lists that are well-formed but wrong
  int nedits = fdp.ConsumeIntegralInRange<int>(1, 6);
  for (int e = 0; e < nedits && fdp.remaining_bytes() > 0; ++e) {
    // token boundaries
    std::vector<std::pair<size_t, size_t>> tok, lines;
    size_t i = 0, ls = 0;
    while (i < f.size()) {
      while (i < f.size() && isspace((unsigned char)f[i])) { if (f[i] == '\n') { lines.emplace_back(ls, i + 1); ls = i + 1; } ++i; }
      size_t s = i;
      while (i < f.size() && !isspace((unsigned char)f[i])) ++i;
      if (i > s) tok.emplace_back(s, i);
    }
    if (tok.empty() || lines.empty()) break;
    int kind = fdp.ConsumeIntegralInRange<int>(0, 5);
    auto t = tok[fdp.ConsumeIntegralInRange<size_t>(0, tok.size() - 1)];
    auto l = lines[fdp.ConsumeIntegralInRange<size_t>(0, lines.size() - 1)];
    switch (kind) {
    case 0: f.replace(t.first, t.second - t.first, repl[fdp.ConsumeIntegralInRange<size_t>(0, 27)]); break;
    case 1: f.erase(t.first, t.second - t.first); break;
    case 2: f.insert(t.second, " " + f.substr(t.first, t.second - t.first)); break;
    case 3: f.erase(l.first, l.second - l.first); break;
    case 4: f.insert(l.second, f.substr(l.first, l.second - l.first)); break;
    default: f.resize(fdp.ConsumeIntegralInRange<size_t>(0, f.size())); break;
    }
  }
  return f;
}

template <class M, class R> void run_one(const std::string &text, bool check, bool bu, bool nontrivial, R reader) {
  M m;
  bool ok;
  try { ok = reader(text, check, bu, m); }
  catch (std::bad_alloc &) { ++fz::C().exceptions; return; }     // allowed: a declared size that cannot be allocated
  catch (std::length_error &) { ++fz::C().exceptions; return; }  // (vector::reserve / resize beyond max_size)
  catch (std::exception &e) { fz::violation((std::string("readStream let an exception escape that is not an allocation failure: ") + e.what()).c_str()); }
  if (ok) {
    ++fz::C().success;
    if (fz::C().sample_ok.empty() || (nontrivial && fz::C().success % 997 == 0)) fz::C().sample_ok = text.substr(0, 160);
    fz::validate_success(m);
  } else {
    ++fz::C().failure;
    if (nontrivial && (fz::C().sample_rej.empty() || fz::C().failure % 9973 == 0)) fz::C().sample_rej = text.substr(0, 160);
  }
}

extern "C" int LLVMFuzzerTestOneInput(const uint8_t *data, size_t size) {
  fz::tick();
  if (size < 2) return 0;
  uint8_t sel = data[0];
  std::string text;
  if (sel & 0x80) { FuzzedDataProvider fdp(data + 1, size - 1); text = apply_edits(fdp); ++fz::C().structured; }
  else text.assign((const char *)data + 1, size - 1);
  if (getenv("VF_FUZZ_DUMP")) fprintf(stderr, "---- text ----\n%s\n----\n", text.c_str());
  // declared sizes are bare integer tokens: more than 5 digits in a row only exercise the allocator and make a single
  // read take tens of seconds (bounded by the declared count, but indistinguishable from a hang at -timeout=10); skipped, counted;
  // t_huge covers these values
  {
    size_t run = 0;
    for (char c : text) { if (isdigit((unsigned char)c)) { if (++run > 5) { ++fz::C().skipped_huge; return 0; } } else run = 0; }
    if (text.find("e+") != std::string::npos || text.find("E+") != std::string::npos) {}  // exponents only matter for coordinates
  }
  std::string up;
  for (char c : text.substr(0, 200)) up += (char)toupper((unsigned char)c);
  bool reached_vertices = up.find("VERTICES") != std::string::npos;
  if (reached_vertices) {
    ++fz::C().passed_header;
    if (text.find("Faces") != std::string::npos || text.find("FACES") != std::string::npos) ++fz::C().reached_topo;
    if (text.find("Prop") != std::string::npos) ++fz::C().reached_prop;
    if (fz::C().nontrivial.size() < 2000000) fz::C().nontrivial.insert(vf::fnv1a(text.data(), text.size()));
  }
  bool check = sel & 8, bu = sel & 16;
  switch (sel % 3) {
  case 0: run_one<GeometricPolyhedralMeshV3d>(text, check, bu, reached_vertices, ascii_shim::read_poly); break;
  case 1: run_one<GeometricTetrahedralMeshV3d>(text, check, bu, reached_vertices, ascii_shim::read_tet); break;
  default: run_one<GeometricHexahedralMeshV3d>(text, check, bu, reached_vertices, ascii_shim::read_hex); break;
  }
  return 0;
}
