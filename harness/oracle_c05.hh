// C05: entity iterators and circulators enumerate exactly the live / incident entities and obey
// the begin/end/valid/lap/backward protocol.
#pragma once
#include "common.hh"
#include "oracle_c01.hh"

namespace vf {

enum CircMode { CM_EXACT, CM_MULTISET, CM_SET };

struct C05Ctx {
  std::vector<int> walk;  // +1 / -1 steps (generated)
  uint64_t circulators = 0, nonempty = 0, nontrivial = 0, empty_centres = 0, iter_checks = 0;
};

#define C05_FAIL(msg)                                                                   \
  do { std::ostringstream o_; o_ << name << "(" << centre << ", max_laps=" << L << "): " << msg; return o_.str(); } while (0)

template <class MakeRange>
std::string circ_protocol(const char *name, int centre, MakeRange mk, const std::vector<int> &brute, CircMode mode, C05Ctx &cx) {
  const size_t n = brute.size();
  for (int L = 1; L <= 3; ++L) {
    auto range = mk(L);
    ++cx.circulators;
    if (n == 0) {
      ++cx.empty_centres;
      if (range.first.valid()) C05_FAIL("nothing is incident but the circulator is valid (dereferenceable)");
      continue;
    }
    ++cx.nonempty;
    if (!range.first.valid()) C05_FAIL("circulator invalid although " << n << " entities are incident: " << vec_str(brute));
    std::vector<int> seq, laps;
    auto it = range.first;
    while (it.valid() && seq.size() <= (size_t)L * n + 2) {
      seq.push_back((*it).idx());
      laps.push_back(it.lap());
      ++it;
    }
    if (seq.size() != (size_t)L * n) C05_FAIL("visits " << seq.size() << " entities, expected " << L << " x " << n << "; sequence " << vec_str(seq) << ", incident " << vec_str(brute));
    std::vector<int> S1(seq.begin(), seq.begin() + (long)n);
    bool okset = mode == CM_EXACT ? S1 == brute : mode == CM_MULTISET ? sorted(S1) == sorted(brute) : sorted(S1) == uniq(brute);
    if (!okset) C05_FAIL("one lap yields " << vec_str(S1) << ", incident " << (mode == CM_EXACT ? "sequence " : mode == CM_SET ? "set " : "multiset ") << vec_str(brute));
    for (size_t p = 0; p < seq.size(); ++p) {
      if (seq[p] != S1[p % n]) C05_FAIL("lap " << p / n << " differs from lap 0 at position " << p % n << ": " << vec_str(seq));
      if (laps[p] != (int)(p / n)) C05_FAIL("lap() = " << laps[p] << " at position " << p << ", expected " << p / n);
    }
    if (!(it == range.second)) C05_FAIL("the end circulator of the range differs from begin advanced " << L * (int)n << " times");
    // walk with forward / backward steps, never before begin
    auto w = range.first;
    size_t pos = 0;
    bool crossed_back = false;
    for (int stp : cx.walk) {
      if (stp > 0) { ++w; ++pos; }
      else if (pos > 0) { if (pos % n == 0) crossed_back = true; --w; --pos; }
      else continue;
      if (pos == (size_t)L * n) {
        if (w.valid()) C05_FAIL("still valid after " << pos << " steps (walk)");
        --w;
        if ((*w).idx() != S1[n - 1] || w.lap() != L - 1)
          C05_FAIL("stepping back from the end gives handle " << (*w).idx() << " lap " << w.lap() << ", expected " << S1[n - 1] << " lap " << L - 1);
        break;
      }
      if (!w.valid()) C05_FAIL("invalid at walk position " << pos << " of " << L * (int)n);
      if ((*w).idx() != S1[pos % n] || w.lap() != (int)(pos / n))
        C05_FAIL("walk position " << pos << ": handle " << (*w).idx() << " lap " << w.lap() << ", expected " << S1[pos % n] << " lap " << pos / n);
    }
    if (n >= 2 && L >= 2 && crossed_back) ++cx.nontrivial;
  }
  return "";
}
#undef C05_FAIL

// entity iterator protocol for one kind; `live` = ascending live handles
template <class It, class Handle, class Range>
std::string entity_iter_protocol(const char *name, It begin, It end, It viter, Range range, const std::vector<int> &live, int n_slots, C05Ctx &cx) {
  std::ostringstream o;
  ++cx.iter_checks;
  std::vector<int> a, b, c;
  { It it = begin; while (it != end && a.size() <= live.size() + 2) { a.push_back((*it).idx()); ++it; } }
  if (a != live) { o << name << " begin..end yields " << vec_str(a) << ", live handles are " << vec_str(live); return o.str(); }
  { It it = viter; while (it.valid() && b.size() <= live.size() + 2) { b.push_back((*it).idx()); ++it; } }
  if (b != live) { o << name << " valid()-loop yields " << vec_str(b) << ", live handles are " << vec_str(live); return o.str(); }
  for (auto h : range) { c.push_back(h.idx()); if (c.size() > live.size() + 2) break; }
  if (c != live) { o << name << " range-for yields " << vec_str(c) << ", live handles are " << vec_str(live); return o.str(); }
  if (!live.empty()) {
    // backward from end(): *--end() is the last live handle, then descending
    It it = end;
    std::vector<int> d;
    for (size_t i = 0; i < live.size(); ++i) { --it; d.push_back((*it).idx()); }
    std::vector<int> rev(live.rbegin(), live.rend());
    if (d != rev) { o << name << " stepping backward from end() yields " << vec_str(d) << ", expected " << vec_str(rev); return o.str(); }
    // forward again from the first element reaches every element and then equals end()
    std::vector<int> e;
    for (size_t i = 0; i < live.size(); ++i) { e.push_back((*it).idx()); ++it; }
    if (e != live) { o << name << " forward after backward yields " << vec_str(e) << ", expected " << vec_str(live); return o.str(); }
    if ((*it).idx() != n_slots) { o << name << " ++ from the last live element lands on handle " << (*it).idx() << ", end() is " << n_slots; return o.str(); }
    // backward valid()-loop from the last live element: descending live handles, then invalid
    It bk(begin.mesh(), Handle(live.back()));
    std::vector<int> f;
    while (bk.valid() && f.size() <= live.size() + 2) { f.push_back((*bk).idx()); --bk; }
    if (f != rev) { o << name << " backward valid()-loop from the last live element yields " << vec_str(f) << ", expected " << vec_str(rev); return o.str(); }
  } else {
    if (begin != end) { o << name << ": begin != end on a mesh without live entities of this kind"; return o.str(); }
    if (viter.valid()) { o << name << ": iterator valid on a mesh without live entities of this kind"; return o.str(); }
  }
  return "";
}

// sweep over every iterator and circulator of the polyhedral kernel
template <class M> std::string c05_sweep(const M &m, C05Ctx &cx) {
  BruteForce bf;
  bf.build(m);
  const bool vbu = m.has_vertex_bottom_up_incidences(), ebu = m.has_edge_bottom_up_incidences(), fbu = m.has_face_bottom_up_incidences();
  const int nv = (int)m.n_vertices(), ne = (int)m.n_edges(), nf = (int)m.n_faces(), nc = (int)m.n_cells();
  std::string r;
  std::vector<int> lv, le, lhe, lf, lhf, lc;
  for (int i = 0; i < nv; ++i) if (bf.v_live[(size_t)i]) lv.push_back(i);
  for (int i = 0; i < ne; ++i) if (bf.e_live[(size_t)i]) { le.push_back(i); lhe.push_back(2 * i); lhe.push_back(2 * i + 1); }
  for (int i = 0; i < nf; ++i) if (bf.f_live[(size_t)i]) { lf.push_back(i); lhf.push_back(2 * i); lhf.push_back(2 * i + 1); }
  for (int i = 0; i < nc; ++i) if (bf.c_live[(size_t)i]) lc.push_back(i);
#define TRY(...) do { r = (__VA_ARGS__); if (!r.empty()) return r; } while (0)
  TRY(entity_iter_protocol<VertexIter, VertexHandle>("vertices()", m.vertices_begin(), m.vertices_end(), m.v_iter(), m.vertices(), lv, nv, cx));
  TRY(entity_iter_protocol<EdgeIter, EdgeHandle>("edges()", m.edges_begin(), m.edges_end(), m.e_iter(), m.edges(), le, ne, cx));
  TRY(entity_iter_protocol<HalfEdgeIter, HalfEdgeHandle>("halfedges()", m.halfedges_begin(), m.halfedges_end(), m.he_iter(), m.halfedges(), lhe, 2 * ne, cx));
  TRY(entity_iter_protocol<FaceIter, FaceHandle>("faces()", m.faces_begin(), m.faces_end(), m.f_iter(), m.faces(), lf, nf, cx));
  TRY(entity_iter_protocol<HalfFaceIter, HalfFaceHandle>("halffaces()", m.halffaces_begin(), m.halffaces_end(), m.hf_iter(), m.halffaces(), lhf, 2 * nf, cx));
  TRY(entity_iter_protocol<CellIter, CellHandle>("cells()", m.cells_begin(), m.cells_end(), m.c_iter(), m.cells(), lc, nc, cx));

  auto he_from = [&](int he) { const auto &e = m.edge(EdgeHandle(he / 2)); return (he & 1) ? e.to_vertex().idx() : e.from_vertex().idx(); };
  auto he_to = [&](int he) { return he_from(he ^ 1); };
  auto hf_hes = [&](int hf) {
    std::vector<int> r2;
    const auto &l = m.face(FaceHandle(hf / 2)).halfedges();
    if (!(hf & 1)) for (auto h : l) r2.push_back(h.idx());
    else for (auto it = l.rbegin(); it != l.rend(); ++it) r2.push_back(it->idx() ^ 1);
    return r2;
  };

  if (vbu)
    for (int v : lv) {
      VertexHandle vh(v);
      const auto &o = bf.out[(size_t)v];
      std::vector<int> in, vv, ve, vhf, vf, vc;
      for (int he : o) {
        in.push_back(he ^ 1); vv.push_back(he_to(he)); ve.push_back(he / 2);
        if (ebu) for (int hf : bf.hfs[(size_t)((he / 2) * 2)]) { vhf.push_back(hf); vhf.push_back(hf ^ 1); }
        if (ebu && fbu) for (int hf : bf.hfs[(size_t)he]) { vf.push_back(hf / 2); if (bf.cell_of[(size_t)hf] >= 0) vc.push_back(bf.cell_of[(size_t)hf]); }
      }
      TRY(circ_protocol("outgoing_halfedges", v, [&](int L) { return m.outgoing_halfedges(vh, L); }, o, CM_MULTISET, cx));
      TRY(circ_protocol("incoming_halfedges", v, [&](int L) { return m.incoming_halfedges(vh, L); }, in, CM_MULTISET, cx));
      TRY(circ_protocol("vertex_vertices", v, [&](int L) { return m.vertex_vertices(vh, L); }, vv, CM_MULTISET, cx));
      TRY(circ_protocol("vertex_edges", v, [&](int L) { return m.vertex_edges(vh, L); }, ve, CM_MULTISET, cx));
      if (ebu) TRY(circ_protocol("vertex_halffaces", v, [&](int L) { return m.vertex_halffaces(vh, L); }, uniq(vhf), CM_SET, cx));
      if (ebu && fbu) {
        TRY(circ_protocol("vertex_faces", v, [&](int L) { return m.vertex_faces(vh, L); }, uniq(vf), CM_SET, cx));
        TRY(circ_protocol("vertex_cells", v, [&](int L) { return m.vertex_cells(vh, L); }, uniq(vc), CM_SET, cx));
      }
    }
  if (ebu)
    for (int he : lhe) {
      HalfEdgeHandle heh(he);
      const auto &l = bf.hfs[(size_t)he];
      std::vector<int> fs, cs, ehf;
      for (int hf : l) { fs.push_back(hf / 2); if (bf.cell_of[(size_t)hf] >= 0) cs.push_back(bf.cell_of[(size_t)hf]); ehf.push_back(hf); ehf.push_back(hf ^ 1); }
      TRY(circ_protocol("halfedge_halffaces", he, [&](int L) { return m.halfedge_halffaces(heh, L); }, l, CM_MULTISET, cx));
      TRY(circ_protocol("halfedge_faces", he, [&](int L) { return m.halfedge_faces(heh, L); }, uniq(fs), CM_SET, cx));
      if (fbu) TRY(circ_protocol("halfedge_cells", he, [&](int L) { return m.halfedge_cells(heh, L); }, uniq(cs), CM_SET, cx));
      if (!(he & 1)) {
        EdgeHandle eh(he / 2);
        TRY(circ_protocol("edge_halffaces", he / 2, [&](int L) { return m.edge_halffaces(eh, L); }, ehf, CM_MULTISET, cx));
        TRY(circ_protocol("edge_faces", he / 2, [&](int L) { return m.edge_faces(eh, L); }, uniq(fs), CM_SET, cx));
        if (fbu) TRY(circ_protocol("edge_cells", he / 2, [&](int L) { return m.edge_cells(eh, L); }, uniq(cs), CM_SET, cx));
      }
    }
  for (int hf : lhf) {
    HalfFaceHandle hfh(hf);
    auto hes = hf_hes(hf);
    std::vector<int> es, vs2;
    for (int h : hes) { es.push_back(h / 2); vs2.push_back(he_from(h)); }
    TRY(circ_protocol("halfface_halfedges", hf, [&](int L) { return m.halfface_halfedges(hfh, L); }, hes, CM_EXACT, cx));
    TRY(circ_protocol("halfface_edges", hf, [&](int L) { return m.halfface_edges(hfh, L); }, es, CM_EXACT, cx));
    TRY(circ_protocol("halfface_vertices", hf, [&](int L) { return m.halfface_vertices(hfh, L); }, vs2, CM_EXACT, cx));
    if (!(hf & 1)) {
      FaceHandle fh(hf / 2);
      TRY(circ_protocol("face_vertices", hf / 2, [&](int L) { return m.face_vertices(fh, L); }, vs2, CM_EXACT, cx));
      TRY(circ_protocol("face_halfedges", hf / 2, [&](int L) { return m.face_halfedges(fh, L); }, hes, CM_EXACT, cx));
      TRY(circ_protocol("face_edges", hf / 2, [&](int L) { return m.face_edges(fh, L); }, es, CM_EXACT, cx));
    }
    if (ebu && fbu && bf.cell_of[(size_t)hf] < 0) {
      std::vector<int> nb;
      for (int h : hes) for (int g : bf.hfs[(size_t)(h ^ 1)]) if (bf.cell_of[(size_t)g] < 0) nb.push_back(g);
      TRY(circ_protocol("boundary_halfface_halffaces", hf, [&](int L) { return m.boundary_halfface_halffaces(hfh, L); }, nb, CM_MULTISET, cx));
    }
  }
  for (int c : lc) {
    CellHandle ch(c);
    std::vector<int> chf, cf, che, ce, cv, cc;
    for (auto h : m.cell(ch).halffaces()) {
      chf.push_back(h.idx()); cf.push_back(h.idx() / 2);
      for (int x : hf_hes(h.idx())) { che.push_back(x); ce.push_back(x / 2); }
      for (auto x : m.face(FaceHandle(h.idx() / 2)).halfedges()) cv.push_back(he_from(x.idx()));
      if (fbu && bf.cell_of[(size_t)(h.idx() ^ 1)] >= 0) cc.push_back(bf.cell_of[(size_t)(h.idx() ^ 1)]);
    }
    TRY(circ_protocol("cell_halffaces", c, [&](int L) { return m.cell_halffaces(ch, L); }, chf, CM_EXACT, cx));
    TRY(circ_protocol("cell_faces", c, [&](int L) { return m.cell_faces(ch, L); }, cf, CM_EXACT, cx));
    TRY(circ_protocol("cell_halfedges", c, [&](int L) { return m.cell_halfedges(ch, L); }, che, CM_EXACT, cx));
    TRY(circ_protocol("cell_edges", c, [&](int L) { return m.cell_edges(ch, L); }, uniq(ce), CM_SET, cx));
    TRY(circ_protocol("cell_vertices", c, [&](int L) { return m.cell_vertices(ch, L); }, uniq(cv), CM_SET, cx));
    if (fbu) TRY(circ_protocol("cell_cells", c, [&](int L) { return m.cell_cells(ch, L); }, uniq(cc), CM_SET, cx));
  }
#undef TRY
  return "";
}

}  // namespace vf
