// Shared infrastructure of all rapidcheck-driven harness targets:
//   * Program = vector<Op> (small-integer ops, total interpretation)
//   * text (de)serialisation of programs -> replay files
//   * Stats: counters, distinct non-trivial hashes, samples -> evidence JSON
//   * generic main(): --run (rapidcheck) / --replay (no library)
#pragma once
#include <cstdint>
#include <cstdio>
#include <cstdlib>
#include <cstring>
#include <fstream>
#include <functional>
#include <iostream>
#include <map>
#include <set>
#include <sstream>
#include <string>
#include <vector>

namespace vf {

struct Op {
  int code = 0;
  int a[5] = {0, 0, 0, 0, 0};
  bool operator==(const Op &o) const {
    return code == o.code && !memcmp(a, o.a, sizeof a);
  }
};
using Program = std::vector<Op>;

struct OpInfo {
  const char *name;
  int nargs;
};

// ---------------------------------------------------------------------------
inline uint64_t fnv1a(const void *p, size_t n, uint64_t h = 1469598103934665603ull) {
  const unsigned char *c = (const unsigned char *)p;
  for (size_t i = 0; i < n; ++i) { h ^= c[i]; h *= 1099511628211ull; }
  return h;
}
inline uint64_t hash_program(const Program &p) {
  uint64_t h = 1469598103934665603ull;
  for (auto &o : p) { h = fnv1a(&o.code, sizeof o.code, h); h = fnv1a(o.a, sizeof o.a, h); }
  return h;
}

inline std::string json_escape(const std::string &s) {
  std::string o;
  for (unsigned char c : s) {
    switch (c) {
    case '"': o += "\\\""; break;
    case '\\': o += "\\\\"; break;
    case '\n': o += "\\n"; break;
    case '\t': o += "\\t"; break;
    case '\r': o += "\\r"; break;
    default:
      if (c < 0x20 || c >= 0x7f) { char b[8]; snprintf(b, sizeof b, "\\u%04x", c); o += b; }
      else o += (char)c;
    }
  }
  return o;
}

struct Stats {
  std::map<std::string, uint64_t> counters;
  std::set<uint64_t> nontrivial;     // hashes of distinct non-trivial cases
  std::vector<std::string> samples;  // rendered cases
  uint64_t evaluations = 0;
  bool frozen = false;               // set once a failure is being shrunk
  void count(const std::string &k, uint64_t n = 1) { if (!frozen) counters[k] += n; }
  void note_case(uint64_t h, bool nontriv, const std::string &rendered) {
    if (frozen) return;
    ++evaluations;
    if (nontriv) {
      bool fresh = nontrivial.insert(h).second;
      if (fresh && samples.size() < 4 && rendered.size() < 4000 &&
          (nontrivial.size() % 37 == 1 || samples.empty()))
        samples.push_back(rendered);
    }
  }
  void write(const std::string &path, bool failed, const std::string &failmsg) const {
    std::ofstream f(path);
    f << "{\n \"evaluations\": " << evaluations << ",\n \"failed\": " << (failed ? "true" : "false")
      << ",\n \"failmsg\": \"" << json_escape(failmsg) << "\",\n \"counters\": {";
    bool first = true;
    for (auto &kv : counters) {
      f << (first ? "" : ",") << "\n  \"" << json_escape(kv.first) << "\": " << kv.second;
      first = false;
    }
    f << "\n },\n \"nontrivial_hashes\": [";
    first = true;
    for (auto h : nontrivial) { f << (first ? "" : ",") << "\"" << std::hex << h << std::dec << "\""; first = false; }
    f << "],\n \"samples\": [";
    first = true;
    for (auto &s : samples) { f << (first ? "" : ",") << "\n  \"" << json_escape(s) << "\""; first = false; }
    f << "\n ]\n}\n";
  }
};

// ---------------------------------------------------------------------------
// Program text format: one op per line "name a b c d e"; '#' starts a comment.
inline std::string program_to_text(const Program &p, const std::vector<OpInfo> &tab,
                                   const std::vector<std::string> *annot = nullptr) {
  std::ostringstream o;
  for (size_t i = 0; i < p.size(); ++i) {
    const Op &op = p[i];
    o << tab[(size_t)op.code].name;
    for (int k = 0; k < 5; ++k) o << ' ' << op.a[k];
    if (annot && i < annot->size() && !(*annot)[i].empty()) o << "   # " << (*annot)[i];
    o << '\n';
  }
  return o.str();
}

inline bool program_from_text(std::istream &in, const std::vector<OpInfo> &tab, Program &out,
                              std::map<std::string, std::string> *header = nullptr) {
  std::string line;
  while (std::getline(in, line)) {
    if (header && line.rfind("#!", 0) == 0) {  // "#! key value"
      std::istringstream h(line.substr(2));
      std::string k, v;
      h >> k;
      std::getline(h, v);
      while (!v.empty() && v[0] == ' ') v.erase(0, 1);
      (*header)[k] = v;
      continue;
    }
    auto pos = line.find('#');
    if (pos != std::string::npos) line.erase(pos);
    std::istringstream ls(line);
    std::string name;
    if (!(ls >> name)) continue;
    Op op;
    op.code = -1;
    for (size_t i = 0; i < tab.size(); ++i)
      if (name == tab[i].name) op.code = (int)i;
    if (op.code < 0) { std::cerr << "unknown op '" << name << "'\n"; return false; }
    for (int k = 0; k < 5; ++k) if (!(ls >> op.a[k])) op.a[k] = 0;
    out.push_back(op);
  }
  return true;
}

inline void write_file(const std::string &path, const std::string &content) {
  std::ofstream f(path, std::ios::binary | std::ios::trunc);
  f << content;
}

struct CaseResult {
  bool ok = true;
  bool nontrivial = false;
  std::string msg;
  std::vector<std::string> annot;  // per-op rendering
};

inline std::string getenv_s(const char *k, const char *def = "") {
  const char *v = getenv(k);
  return v ? v : def;
}
inline long getenv_l(const char *k, long def) {
  const char *v = getenv(k);
  return v && *v ? atol(v) : def;
}

}  // namespace vf
