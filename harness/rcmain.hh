// Generic main() for program-driven targets. The including TU must define
//   namespace target { optable(); weights(id); run_case(id, prog, stats); }
#pragma once
#include "common.hh"
#include <rapidcheck.h>
#include <chrono>

namespace target {
const std::vector<vf::OpInfo> &optable();
// (weight, opcode) pairs for the generator of property `id`
std::vector<std::pair<int, int>> weights(const std::string &id);
vf::CaseResult run_case(const std::string &id, const vf::Program &p, vf::Stats &st);
}  // namespace target

namespace vf {

inline rc::Gen<Op> gen_op(const std::string &id) {
  std::vector<std::size_t> freq;
  std::vector<int> codes;
  for (auto &pr : target::weights(id))
    if (pr.first > 0) { freq.push_back((std::size_t)pr.first); codes.push_back(pr.second); }
  rc::Gen<int> codegen = rc::gen::detail::WeightedElementGen<int>(std::move(freq), std::move(codes));
  auto arg = rc::gen::resize(200, rc::gen::inRange(0, 256));
  return rc::gen::apply(
      [](int code, int a, int b, int c, int d, int e) {
        Op o;
        o.code = code;
        o.a[0] = a; o.a[1] = b; o.a[2] = c; o.a[3] = d; o.a[4] = e;
        return o;
      },
      codegen, arg, arg, arg, arg, arg);
}

inline std::string render(const Program &p, const CaseResult &r) {
  return program_to_text(p, target::optable(), &r.annot);
}

// directory for short-lived files of a case (the worker's directory; next to the binary when replaying)
inline std::string &scratch_dir() { static std::string d = "."; return d; }

inline int generic_main(int argc, char **argv) {
  std::string mode, id, out, work, file;
  for (int i = 1; i < argc; ++i) {
    std::string a = argv[i];
    if (a == "--run" && i + 1 < argc) { mode = "run"; id = argv[++i]; }
    else if (a == "--replay" && i + 2 < argc) { mode = "replay"; id = argv[++i]; file = argv[++i]; }
    else if (a == "--out" && i + 1 < argc) out = argv[++i];
    else if (a == "--work" && i + 1 < argc) work = argv[++i];
  }
  {
    std::string self = argv[0];
    size_t sl = self.rfind('/');
    scratch_dir() = !work.empty() ? work : (sl == std::string::npos ? std::string(".") : self.substr(0, sl));
  }
  if (mode == "replay") {
    std::ifstream in(file);
    if (!in) { std::cerr << "cannot open " << file << "\n"; return 2; }
    Program p;
    if (!program_from_text(in, target::optable(), p)) return 2;
    Stats st;
    CaseResult r = target::run_case(id, p, st);
    std::cout << render(p, r);
    if (r.ok) { std::cout << "REPLAY-OK property=" << id << "\n"; return 0; }
    std::cout << "REPLAY-FAIL property=" << id << " : " << r.msg << "\n";
    return 1;
  }
  if (mode != "run" || out.empty() || work.empty()) {
    std::cerr << "usage: --run ID --out stats.json --work DIR | --replay ID FILE\n";
    return 2;
  }
  const std::string inflight = work + "/inflight.txt", lastfail = work + "/lastfail.txt";
  std::remove(lastfail.c_str());
  Stats st;
  double scale = atof(getenv_s("VF_LEN_SCALE", "0.6").c_str());
  auto opg = gen_op(id);
  auto progg = rc::gen::scale(scale, rc::gen::container<Program>(opg));
  std::string failmsg;
  // optional wall-clock budget of this worker (thorough tier): once it is used up the remaining cases are not run
  // (counted, reported as not explored - never as a violation); statistics are flushed periodically so that a worker
  // killed by the driver's timeout still reports what it covered
  const double budget = atof(getenv_s("VF_TIME_BUDGET", "0").c_str());
  const auto t_start = std::chrono::steady_clock::now();
  uint64_t since_flush = 0;
  bool ok = rc::check(id, [&]() {
    if (budget > 0 && !st.frozen && std::chrono::duration<double>(std::chrono::steady_clock::now() - t_start).count() > budget) {
      ++st.counters["cases_not_run_after_time_budget"];
      return;
    }
    if (!st.frozen && ++since_flush >= 200) { since_flush = 0; st.write(out, false, ""); }
    Program p = *progg;
    write_file(inflight, "#! id " + id + "\n" + program_to_text(p, target::optable()));
    CaseResult r = target::run_case(id, p, st);
    if (!st.frozen) st.note_case(hash_program(p), r.nontrivial, render(p, r));
    if (!r.ok) {
      st.frozen = true;  // everything from here on is shrinking
      failmsg = r.msg;
      write_file(lastfail, "#! id " + id + "\n#! msg " + r.msg + "\n" + render(p, r));
      RC_FAIL(r.msg);
    }
  });
  std::remove(inflight.c_str());
  st.write(out, !ok, failmsg);
  return ok ? 0 : 1;
}

}  // namespace vf

// ---------------------------------------------------------------------------
// Entry points. VF_DEFINE_MAIN expands to main() (rapidcheck driver / replay) or, with -DVF_FUZZ_MAIN, to nothing:
// the libFuzzer entry below then drives the same target::run_case from coverage-guided byte strings
// (6 bytes per op: weighted opcode + 5 arguments), so rapidcheck and libFuzzer share interpreter, oracles and
// replay format.
#ifndef VF_FUZZ_MAIN
#define VF_DEFINE_MAIN int main(int argc, char **argv) { return vf::generic_main(argc, argv); }
#else
#define VF_DEFINE_MAIN
namespace vf {
struct FuzzState {
  std::string id, out, stats;
  Stats st;
  int table[256];
  uint64_t n = 0;
  FuzzState() {
    id = getenv_s("VF_FUZZ_ID", "C01");
    out = getenv_s("VF_FUZZ_OUT", ".");
    stats = out + "/stats.json";
    scratch_dir() = out;
    std::vector<std::pair<int, int>> w;
    long total = 0;
    for (auto &pr : target::weights(id)) if (pr.first > 0) { w.push_back(pr); total += pr.first; }
    for (int i = 0; i < 256; ++i) {
      long pos = (long)i * total / 256, acc = 0;
      int code = w.back().second;
      for (auto &pr : w) { acc += pr.first; if (pos < acc) { code = pr.second; break; } }
      table[i] = code;
    }
  }
};
inline FuzzState &fuzz_state() { static FuzzState s; return s; }
}  // namespace vf

extern "C" int LLVMFuzzerTestOneInput(const uint8_t *data, size_t size) {
  vf::FuzzState &S = vf::fuzz_state();
  vf::Program p;
  for (size_t i = 0; i + 6 <= size && p.size() < 160; i += 6) {
    vf::Op o;
    o.code = S.table[data[i]];
    for (int k = 0; k < 5; ++k) o.a[k] = data[i + 1 + (size_t)k];
    p.push_back(o);
  }
  if (const char *dec = getenv("VF_FUZZ_DECODE")) {
    vf::write_file(dec, "#! id " + S.id + "\n" + vf::program_to_text(p, target::optable()));
    return 0;
  }
  if (p.empty()) return 0;
  vf::CaseResult r = target::run_case(S.id, p, S.st);
  uint64_t h = vf::hash_program(p);
  if (S.st.nontrivial.size() < 1500000) S.st.note_case(h, r.nontrivial, vf::render(p, r));
  else ++S.st.evaluations;
  if (++S.n % 100 == 0) S.st.write(S.stats, false, "");
  if (!r.ok) {
    char hb[32];
    snprintf(hb, sizeof hb, "%016llx", (unsigned long long)h);
    vf::write_file(S.out + "/fail-" + hb + ".txt", "#! id " + S.id + "\n#! msg " + r.msg + "\n" + vf::render(p, r));
    S.st.write(S.stats, true, r.msg);
    __builtin_trap();
  }
  static bool reg = false;
  if (!reg) { reg = true; atexit([] { vf::fuzz_state().st.write(vf::fuzz_state().stats, false, ""); }); }
  return 0;
}
#endif
