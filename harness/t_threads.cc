// C20: concurrent read-only use of a mesh is race-free and deterministic.
// Generated meshes (polyhedral via the history interpreter, tetrahedral and hexahedral via small builders),
// T in {2,4,8,16} reader threads each running a generated sequence of const-API sweeps; ThreadSanitizer is the
// race oracle, the single-threaded digest of the same sequence the determinism oracle.
#include "interp.hh"
#include "oracle_c01.hh"
#include "oracle_c05.hh"
#include "oracle_c08.hh"
#include "oracle_c09.hh"
#include "oracle_c10.hh"
#include "props.hh"
#include "rcmain.hh"
#include <OpenVolumeMesh/Mesh/HexahedralMesh.hh>
#include <OpenVolumeMesh/Mesh/TetrahedralMesh.hh>
#include <OpenVolumeMesh/Unstable/Topology/TetTopology.hh>
#include <atomic>
#include <thread>

using namespace vf;

namespace target {

const std::vector<OpInfo> &optable() { return poly_optable(); }
std::vector<std::pair<int, int>> weights(const std::string &) {
  return {{4, O_ADD_VERTEX}, {4, O_ADD_EDGE}, {6, O_ADD_FACE_V}, {14, O_ADD_CELL_TPL}, {8, O_ADD_CONE}, {3, O_ADD_RING}, {2, O_DEL_E}, {2, O_DEL_F}, {3, O_DEL_C},
          {1, O_DEL_V}, {1, O_GC}, {1, O_EN_DEFERRED}, {1, O_EN_FAST}, {6, O_PROP_CREATE}, {6, O_PROP_WRITE}, {8, O_QUERY}};
}
static std::string oneline(std::string s) { for (auto &c : s) if (c == '\n' || c == '\r') c = ' '; return s; }

static uint64_t mix(uint64_t h, uint64_t v) { h ^= v + 0x9e3779b97f4a7c15ull + (h << 6) + (h >> 2); return h; }
static uint64_t hstr(const std::string &s) { return fnv1a(s.data(), s.size()); }

// one const-API step of kind k on mesh m; returns a digest of everything it observed
template <class M> uint64_t step(const M &m, int k, int arg, const PropBank *bank) {
  uint64_t h = (uint64_t)k;
  switch (k % 10) {
  case 0: { C01Counters c; h = mix(h, hstr(c01_check(m, c))); h = mix(h, c.queries); break; }           // all upward queries, boundary tests, boundary iterators
  case 1: { C05Ctx cx; cx.walk = {1, 1, -1, 1, 1, 1, -1, 1, 1, 1}; h = mix(h, hstr(c05_sweep(m, cx))); h = mix(h, cx.circulators); break; }  // every iterator / circulator
  case 2: { C08Ctx cx; std::vector<char> none(m.n_faces(), 0); h = mix(h, hstr(c08_sweep(m, none, cx))); h = mix(h, cx.faces); break; }
  case 3: { C09Ctx cx; h = mix(h, hstr(c09_sweep(m, cx))); h = mix(h, cx.adj_checked); break; }              // rotational order, adjacent_halfface_in_cell
  case 4: { C10Ctx cx; cx.salt = arg % 16; h = mix(h, hstr(c10_sweep(m, cx))); h = mix(h, cx.queries); break; }  // all lookups
  case 5: {  // definitions, positions, geometric queries
    for (auto e : m.edges()) { h = mix(h, (uint64_t)m.edge(e).from_vertex().idx() * 31 + (uint64_t)m.edge(e).to_vertex().idx()); auto b = m.barycenter(e); h = mix(h, (uint64_t)(int64_t)(b[0] * 1024)); h = mix(h, (uint64_t)(int64_t)(m.length(e) * 1024)); }
    for (auto f : m.faces()) { auto b = m.barycenter(f); h = mix(h, (uint64_t)(int64_t)(b[1] * 1024)); if (m.valence(f) >= 3) { auto n = m.normal(m.halfface_handle(f, arg & 1)); if (n[0] == n[0]) h = mix(h, (uint64_t)(int64_t)(n[2] * 1024)); } }
    for (auto c : m.cells()) { auto b = m.barycenter(c); h = mix(h, (uint64_t)(int64_t)(b[2] * 1024)); h = mix(h, m.n_vertices_in_cell(c)); }
    for (auto v : m.vertices()) { auto p = m.vertex(v); h = mix(h, (uint64_t)(int64_t)(p[0] * 8)); }
    break;
  }
  case 6: {  // property values through existing handles and copies of those handles
    if (bank)
      for (auto &sp : bank->slots) {
        const PropBase &p = *sp->inst[0];
        for (size_t i = 0; i < p.size(); ++i) h = mix(h, hstr(p.show(i)));
        h = mix(h, p.size());
      }
    break;
  }
  case 7: {  // counts, flags
    h = mix(h, m.n_vertices()); h = mix(h, m.n_logical_edges()); h = mix(h, (uint64_t)m.genus()); h = mix(h, m.needs_garbage_collection());
    for (size_t i = 0; i < m.n_faces(); ++i) h = mix(h, m.is_deleted(FaceHandle((int)i)));
    for (size_t i = 0; i < m.n_cells(); ++i) h = mix(h, m.is_deleted(CellHandle((int)i)));
    break;
  }
  case 8: {  // registry lookups by name (const, no property is created or destroyed), persistent set enumeration
    if (bank)
      for (auto &sp : bank->slots) {
        const std::string &n = sp->name;
        h = mix(h, m.template property_exists<int, Entity::Vertex>(n)); h = mix(h, m.template property_exists<bool, Entity::Edge>(n));
        h = mix(h, m.template property_exists<std::string, Entity::Face>(n)); h = mix(h, m.template property_exists<Vec3d, Entity::Cell>(n));
        h = mix(h, m.template property_exists<int, Entity::HalfFace>(n)); h = mix(h, m.template property_exists<bool, Entity::HalfEdge>(n));
        if (auto q = m.template get_property<int, Entity::Vertex>(n)) { h = mix(h, q->size()); if (q->size()) h = mix(h, (uint64_t)(int64_t)(*q)[VertexHandle(0)]); }
        if (auto q = m.template get_property<bool, Entity::Edge>(n)) h = mix(h, q->size());
      }
    h = mix(h, m.template n_persistent_props<Entity::Vertex>()); h = mix(h, m.template n_props<Entity::Face>());
    for (auto it = m.template persistent_props_begin<Entity::Vertex>(); it != m.template persistent_props_end<Entity::Vertex>(); ++it) h = mix(h, hstr((*it)->name()));
    h = mix(h, m.template vertex_property_exists<Vec3d>("ovm:position"));
    break;
  }
  default: {  // backward traversal of every entity iterator
    { auto it = m.vertices_end(); for (size_t i = 0; i < m.n_logical_vertices(); ++i) { --it; h = mix(h, (uint64_t)(*it).idx()); } }
    { auto it = m.halffaces_end(); for (size_t i = 0; i < m.n_logical_halffaces(); ++i) { --it; h = mix(h, (uint64_t)(*it).idx()); } }
    { auto it = m.cells_end(); for (size_t i = 0; i < m.n_logical_cells(); ++i) { --it; h = mix(h, (uint64_t)(*it).idx()); } }
    break;
  }
  }
  return h;
}
// tetrahedral / hexahedral specific const queries
static uint64_t tet_step(const GeometricTetrahedralMeshV3d &m) {
  uint64_t h = 7;
  for (auto c : m.cells()) {
    for (auto v : m.get_cell_vertices(c)) h = mix(h, (uint64_t)v.idx());
    for (auto v : m.tet_vertices(c)) h = mix(h, (uint64_t)v.idx());
    for (auto hf : m.cell(c).halffaces()) { h = mix(h, (uint64_t)m.halfface_opposite_vertex(hf).idx()); for (auto v : m.get_cell_vertices(hf)) h = mix(h, (uint64_t)v.idx()); }
    for (auto v : m.get_cell_vertices(c)) for (auto w : m.get_cell_vertices(c)) if (v != w) h = mix(h, (uint64_t)m.find_halfedge(v, w).idx());
    TetTopology tt(m, c);
    h = mix(h, (uint64_t)tt.a().idx() * 7 + (uint64_t)tt.d().idx()); h = mix(h, (uint64_t)tt.bcd().idx());
  }
  return h;
}
static uint64_t hex_step(const GeometricHexahedralMeshV3d &m) {
  uint64_t h = 11;
  for (auto c : m.cells()) {
    for (auto v : m.hex_vertices(c)) h = mix(h, (uint64_t)v.idx());
    for (unsigned char d = 0; d < 6; ++d) { for (auto n : m.cell_sheet_cells(c, d)) h = mix(h, (uint64_t)n.idx()); h = mix(h, (uint64_t)m.get_oriented_halfface(d, c).idx()); }
    for (auto hf : m.cell(c).halffaces()) { for (auto x : m.halfface_sheet_halffaces(hf)) h = mix(h, (uint64_t)x.idx()); h = mix(h, m.orientation(hf, c)); }
  }
  return h;
}

vf::CaseResult run_case(const std::string &id, const Program &prog, Stats &st) {
  CaseResult res;
  Interp I;
  I.st = &st;
  I.allow_set = false;
  I.allow_selfloop = false;
  Sut &S = I.add_sut("mesh");
  PropBank bank(I);
  if (!prog.empty()) { S.mesh.enable_deferred_deletion(true); S.deferred = true; S.mesh.enable_fast_deletion(prog[0].a[4] & 2); S.fast = prog[0].a[4] & 2; }
  std::vector<const Op *> queries;
  for (size_t i = 0; i < prog.size(); ++i) {
    const Op &op = prog[i];
    std::string annot;
    if (op.code == O_QUERY) { queries.push_back(&op); annot = "reader thread sequence"; }
    else if (op.code == O_PROP_CREATE) { static const int tmap[4] = {PT_INT, PT_BOOL, PT_STRING, PT_VEC3D}; bank.create(op.a[0] % PK_COUNT, tmap[op.a[1] % 4], op.a[2] % 3, op.a[3] % 5, annot); }
    else if (op.code == O_PROP_WRITE) bank.write(op.a[0], op.a[1], 1 + op.a[2] % 9, annot);
    else { if (!I.run_op(op)) { res.annot.push_back(I.cur_annot); break; } annot = I.cur_annot; }
    res.annot.push_back(annot);
  }
  if (!I.fail.empty()) { st.count("discarded_prereq_" + I.fail_owner); return res; }
  // small tetrahedral and hexahedral companions
  GeometricTetrahedralMeshV3d tm;
  GeometricHexahedralMeshV3d hm;
  {
    std::vector<VertexHandle> vs;
    int nt = 2 + (prog.empty() ? 0 : prog[0].a[0] % 4);
    for (int k = 0; k < 3 + nt; ++k) vs.push_back(tm.add_vertex(Vec3d(k, (k * k) % 5, k % 3)));
    for (int k = 0; k < nt; ++k) tm.add_cell(vs[(size_t)k], vs[(size_t)k + 1], vs[(size_t)k + 2], vs[(size_t)k + 3], true);
    // a closed ring of tets around one edge: its two end vertices get 10..13 outgoing halfedges
    {
      int n = 9 + (prog.empty() ? 0 : prog[0].a[2] % 4);
      VertexHandle a = tm.add_vertex(Vec3d(0, 0, 10)), b = tm.add_vertex(Vec3d(0, 0, 11));
      std::vector<VertexHandle> r;
      for (int k = 0; k < n; ++k) r.push_back(tm.add_vertex(Vec3d(std::cos(6.2831853 * k / n), std::sin(6.2831853 * k / n), 10.5)));
      for (int k = 0; k < n; ++k) tm.add_cell(a, b, r[(size_t)k], r[(size_t)(k + 1) % (size_t)n], true);
    }
    static const int P[8][3] = {{0, 0, 0}, {1, 0, 0}, {1, 1, 0}, {0, 1, 0}, {0, 0, 1}, {0, 1, 1}, {1, 1, 1}, {1, 0, 1}};
    for (int c = 0; c < 2 + (prog.empty() ? 0 : prog[0].a[1] % 2); ++c) {
      std::vector<VertexHandle> hv;
      for (auto &p : P) { Vec3d q(c + p[0], p[1], p[2]); VertexHandle f(-1); for (auto v : hm.vertices()) if (hm.vertex(v) == q) f = v; hv.push_back(f.is_valid() ? f : hm.add_vertex(q)); }
      hm.add_cell(hv, true);
    }
  }
  if (queries.empty()) return res;
  // "cold" twin of the generated mesh: rebuilt from the stored definitions with bottom-up incidences switched off and
  // enabled only at the very end (as the file readers do), and never queried before the reader threads start - so that
  // lazily initialised state behind const accessors (caches, postponed re-ordering) is first touched concurrently.
  // Building and checking the original mesh has long warmed up anything of that kind.
  PolyMesh cold, collected;
  bool use_cold = true;
  if (S.mesh.needs_garbage_collection() && (queries[0]->a[4] & 1)) use_cold = false;  // half of those cases: readers see the pending deletions
  else if (S.mesh.needs_garbage_collection()) { collected = S.mesh; collected.collect_garbage(); }
  const PolyMesh &src = S.mesh.needs_garbage_collection() ? collected : S.mesh;
  if (use_cold) {
    cold.enable_bottom_up_incidences(false);
    for (size_t v = 0; v < src.n_vertices(); ++v) cold.add_vertex(src.vertex(VertexHandle((int)v)));
    for (size_t e = 0; e < src.n_edges(); ++e) cold.add_edge(src.edge(EdgeHandle((int)e)).from_vertex(), src.edge(EdgeHandle((int)e)).to_vertex(), true);
    for (size_t f = 0; f < src.n_faces(); ++f) cold.add_face(src.face(FaceHandle((int)f)).halfedges(), false);
    for (size_t c = 0; c < src.n_cells(); ++c) cold.add_cell(src.cell(CellHandle((int)c)).halffaces(), false);
    cold.enable_bottom_up_incidences(true);
    use_cold = cold.n_vertices() == src.n_vertices() && cold.n_edges() == src.n_edges() && cold.n_faces() == src.n_faces() && cold.n_cells() == src.n_cells();
  }
  st.count(use_cold ? "readers_on_cold_twin" : "readers_on_generated_mesh(pending deletions)");
  // the same for the companions: incidences off and on again, no query in between
  tm.enable_bottom_up_incidences(false); tm.enable_bottom_up_incidences(true);
  hm.enable_bottom_up_incidences(false); hm.enable_bottom_up_incidences(true);
  const PolyMesh &M = use_cold ? cold : S.mesh;  // readers only see const references
  const PolyMesh &MP = S.mesh;                   // property groups: the bank's handles belong to the generated mesh
  const PropBank *B = &bank;
  int T = 2 << (queries[0]->a[0] % 4);  // 2,4,8,16
  if (T > 16) T = 16;
  // per-thread sequences: generated from the query ops
  std::vector<std::vector<std::pair<int, int>>> seqs((size_t)T);
  for (int t = 0; t < T; ++t) {
    const Op &q = *queries[(size_t)t % queries.size()];
    int len = 3 + q.a[1] % 6;
    for (int j = 0; j < len; ++j) seqs[(size_t)t].emplace_back((q.a[(j + t) % 5] + j * (1 + q.a[2] % 5) + (t / (int)queries.size())) % 12, q.a[(j + 1) % 5]);
  }
  auto run_seq = [&](const std::vector<std::pair<int, int>> &sq) {
    uint64_t h = 0;
    for (auto &pr : sq) {
      if (pr.first == 10) h = mix(h, tet_step(tm));
      else if (pr.first == 11) h = mix(h, hex_step(hm));
      else h = mix(h, step((pr.first % 10 == 6 || pr.first % 10 == 8) ? MP : M, pr.first, pr.second, B));
    }
    return h;
  };
  // the single-threaded reference digests are computed AFTER the concurrent run (they would warm everything up)
  std::vector<uint64_t> ref((size_t)T), got((size_t)T, 0);
  std::atomic<int> ready(0);
  std::atomic<bool> go(false);
  std::vector<std::thread> th;
  for (int t = 0; t < T; ++t)
    th.emplace_back([&, t]() {
      ready.fetch_add(1);
      while (!go.load(std::memory_order_acquire)) std::this_thread::yield();
      for (int spin = 0; spin < (queries[0]->a[3] % 4) * t * 50; ++spin) std::this_thread::yield();  // generated start skew
      got[(size_t)t] = run_seq(seqs[(size_t)t]);
    });
  while (ready.load() < T) std::this_thread::yield();
  go.store(true, std::memory_order_release);
  for (auto &x : th) x.join();
  for (int t = 0; t < T; ++t) ref[(size_t)t] = run_seq(seqs[(size_t)t]);
  std::set<int> kinds;
  bool overlap = false;
  for (int t = 0; t < T; ++t) for (auto &pr : seqs[(size_t)t]) { if (t > 0) for (auto &q0 : seqs[0]) if (q0.first == pr.first) overlap = true; kinds.insert(pr.first); }
  st.count("threads_" + std::to_string(T));
  st.count("reader_steps", (uint64_t)T * seqs[0].size());
  for (int k : kinds) st.count("const_api_group_" + std::to_string(k) + "_run_concurrently");
  for (int t = 0; t < T; ++t)
    if (got[(size_t)t] != ref[(size_t)t]) { res.ok = false; res.msg = oneline("reader thread " + std::to_string(t) + " of " + std::to_string(T) + " observed a different result digest than the single-threaded run of the same const query sequence"); break; }
  res.nontrivial = overlap && M.n_logical_cells() > 0;
  (void)id;
  return res;
}

}  // namespace target

VF_DEFINE_MAIN
