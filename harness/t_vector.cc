// C19: VectorT algebra and GeometryKernel queries match their defining formulas.
//  * --lattice: complete enumeration of all vector pairs over {-2..2}^D (unsigned {0..4}^D), D=2,3,4, four scalar types
//  * --run / --replay: generated vectors (special floating-point values) and generated meshes with generated positions
#include "common.hh"
#include "rcmain.hh"
#include <OpenVolumeMesh/Attribs/NormalAttrib.hh>
#include <OpenVolumeMesh/Geometry/VectorT.hh>
#include <OpenVolumeMesh/Mesh/HexahedralMesh.hh>
#include <OpenVolumeMesh/Mesh/PolyhedralMesh.hh>
#include <OpenVolumeMesh/Mesh/TetrahedralMesh.hh>
#include <cfloat>
#include <cmath>
#include <limits>
#include <sstream>
#include <thread>
#include <type_traits>

using namespace vf;
using namespace OpenVolumeMesh;

static uint64_t g_checks = 0;

template <class S> std::string sname();
template <> std::string sname<int>() { return "int"; }
template <> std::string sname<unsigned>() { return "unsigned"; }
template <> std::string sname<float>() { return "float"; }
template <> std::string sname<double>() { return "double"; }

template <class S> bool same(S a, S b) {
  if constexpr (std::is_floating_point<S>::value) { if (std::isnan(a) && std::isnan(b)) return true; return a == b; }
  else return a == b;
}
// |a-b| <= tol_units * eps * scale  (scale = sum of magnitudes entering the result); NaN/inf aware
template <class S> bool close_to(S a, S b, S scale, int units = 4) {
  if constexpr (!std::is_floating_point<S>::value) { (void)scale; (void)units; return a == b; }
  else {
    if (std::isnan(a) || std::isnan(b)) return std::isnan(a) && std::isnan(b);
    if (std::isinf(a) || std::isinf(b)) return a == b || std::isinf(scale) || std::isnan(scale);
    if (std::isnan(scale) || std::isinf(scale)) return true;  // intermediate overflow: not judged
    S tol = (S)units * std::numeric_limits<S>::epsilon() * scale + std::numeric_limits<S>::denorm_min() * (S)units;
    return std::fabs(a - b) <= tol;
  }
}
template <class S> S absval(S x) { if constexpr (std::is_unsigned<S>::value) return x; else return x < S(0) ? (S)(-x) : x; }

template <class S, int D> std::string vstr(const VectorT<S, D> &v) {
  std::ostringstream o;
  o.precision(17);
  o << "(";
  for (int i = 0; i < D; ++i) o << (i ? "," : "") << +v[(size_t)i];
  o << ")";
  return o.str();
}

#define VFAIL(what) do { std::ostringstream o_; o_ << "VectorT<" << sname<S>() << "," << D << "> a=" << vstr(a) << " b=" << vstr(b) << ": " << what; return o_.str(); } while (0)

// every operation named by the property against its component-wise definition
template <class S, int D> std::string check_pair(const VectorT<S, D> &a, const VectorT<S, D> &b, S s) {
  using V = VectorT<S, D>;
  constexpr bool FP = std::is_floating_point<S>::value;
  ++g_checks;
  V r;
  bool bz = false, sz = (s == S(0));
  for (int i = 0; i < D; ++i) if (b[(size_t)i] == S(0)) bz = true;
  // component-wise and scalar arithmetic, compound forms, both orders
  { r = a + b; for (int i = 0; i < D; ++i) if (!same<S>(r[(size_t)i], (S)(a[(size_t)i] + b[(size_t)i]))) VFAIL("a+b component " << i << " = " << +r[(size_t)i]); }
  { r = a - b; for (int i = 0; i < D; ++i) if (!same<S>(r[(size_t)i], (S)(a[(size_t)i] - b[(size_t)i]))) VFAIL("a-b component " << i << " = " << +r[(size_t)i]); }
  { r = a * b; for (int i = 0; i < D; ++i) if (!same<S>(r[(size_t)i], (S)(a[(size_t)i] * b[(size_t)i]))) VFAIL("a*b component " << i << " = " << +r[(size_t)i]); }
  if (FP || !bz) { r = a / b; for (int i = 0; i < D; ++i) if (!same<S>(r[(size_t)i], (S)(a[(size_t)i] / b[(size_t)i]))) VFAIL("a/b component " << i << " = " << +r[(size_t)i]); }
  { r = a; r += b; for (int i = 0; i < D; ++i) if (!same<S>(r[(size_t)i], (S)(a[(size_t)i] + b[(size_t)i]))) VFAIL("a+=b component " << i); }
  { r = a; r -= b; for (int i = 0; i < D; ++i) if (!same<S>(r[(size_t)i], (S)(a[(size_t)i] - b[(size_t)i]))) VFAIL("a-=b component " << i); }
  { r = a; r *= b; for (int i = 0; i < D; ++i) if (!same<S>(r[(size_t)i], (S)(a[(size_t)i] * b[(size_t)i]))) VFAIL("a*=b component " << i); }
  if (FP || !bz) { r = a; r /= b; for (int i = 0; i < D; ++i) if (!same<S>(r[(size_t)i], (S)(a[(size_t)i] / b[(size_t)i]))) VFAIL("a/=b component " << i); }
  { r = a * s; V q = s * a; V c = a; c *= s; for (int i = 0; i < D; ++i) { S e = (S)(a[(size_t)i] * s); if (!same<S>(r[(size_t)i], e) || !same<S>(q[(size_t)i], e) || !same<S>(c[(size_t)i], e)) VFAIL("a*s / s*a / a*=s component " << i << " with s=" << +s); } }
  if (FP || !sz) { r = a / s; V c = a; c /= s; for (int i = 0; i < D; ++i) { S e = (S)(a[(size_t)i] / s); if (!same<S>(r[(size_t)i], e) || !same<S>(c[(size_t)i], e)) VFAIL("a/s / a/=s component " << i << " with s=" << +s); } }
  if constexpr (!std::is_unsigned<S>::value) { r = -a; for (int i = 0; i < D; ++i) if (!same<S>(r[(size_t)i], (S)(-a[(size_t)i]))) VFAIL("-a component " << i); }
  // comparison and lexicographic order
  {
    bool eq = true, lt = false, decided = false;
    for (int i = 0; i < D; ++i) {
      if (!(a[(size_t)i] == b[(size_t)i])) eq = false;
      if (!decided) { if (a[(size_t)i] < b[(size_t)i]) { lt = true; decided = true; } else if (b[(size_t)i] < a[(size_t)i]) { lt = false; decided = true; } }
    }
    if ((a == b) != eq || (a != b) != !eq) VFAIL("operator== / != disagree with component-wise equality");
    if ((a < b) != lt) VFAIL("operator< is " << (a < b) << ", lexicographic order says " << lt);
  }
  // dot, cross, norms
  {
    S d = S(0), sc = S(0), sq = S(0), sqs = S(0);
    for (int i = 0; i < D; ++i) { d = (S)(d + a[(size_t)i] * b[(size_t)i]); sc = (S)(sc + absval<S>((S)(a[(size_t)i] * b[(size_t)i]))); sq = (S)(sq + a[(size_t)i] * a[(size_t)i]); sqs = (S)(sqs + absval<S>((S)(a[(size_t)i] * a[(size_t)i]))); }
    if (!close_to<S>(a | b, d, sc) || !close_to<S>(a.dot(b), d, sc) || !close_to<S>(dot(a, b), d, sc)) VFAIL("dot product = " << +(a | b) << ", sum of products = " << +d);
    if (!close_to<S>(a.sqrnorm(), sq, sqs)) VFAIL("sqrnorm = " << +a.sqrnorm() << ", sum of squares = " << +sq);
    if constexpr (FP) {
      S n = std::sqrt(sq);
      if (!close_to<S>(a.norm(), n, n, 8) || !close_to<S>(a.length(), n, n, 8)) VFAIL("norm/length = " << a.norm() << ", sqrt(sum of squares) = " << n);
      if (std::isfinite(n) && n > std::numeric_limits<S>::min() * 1e6 && n < std::numeric_limits<S>::max() / 1e6) {
        V u = a.normalized(), w = a, c = a;
        w.normalize(); c.normalize_cond();
        for (int i = 0; i < D; ++i) { S e = a[(size_t)i] / n; if (!close_to<S>(u[(size_t)i], e, std::fabs(e) + 1, 8) || !close_to<S>(w[(size_t)i], e, std::fabs(e) + 1, 8) || !close_to<S>(c[(size_t)i], e, std::fabs(e) + 1, 8)) VFAIL("normalized/normalize/normalize_cond component " << i << " = " << u[(size_t)i] << "/" << w[(size_t)i] << "/" << c[(size_t)i] << ", expected " << e); }
      }
      if (sq == S(0)) { V c = a; c.normalize_cond(); for (int i = 0; i < D; ++i) if (!same<S>(c[(size_t)i], a[(size_t)i])) VFAIL("normalize_cond changed a zero vector"); }
    }
    if constexpr (D == 3) {
      V c = a % b, c2 = a.cross(b), c3 = cross(a, b);
      S e[3] = {(S)(a[1] * b[2] - a[2] * b[1]), (S)(a[2] * b[0] - a[0] * b[2]), (S)(a[0] * b[1] - a[1] * b[0])};
      S m[3] = {(S)(absval<S>((S)(a[1] * b[2])) + absval<S>((S)(a[2] * b[1]))), (S)(absval<S>((S)(a[2] * b[0])) + absval<S>((S)(a[0] * b[2]))), (S)(absval<S>((S)(a[0] * b[1])) + absval<S>((S)(a[1] * b[0])))};
      for (int i = 0; i < 3; ++i) if (!close_to<S>(c[(size_t)i], e[i], m[i]) || !close_to<S>(c2[(size_t)i], e[i], m[i]) || !close_to<S>(c3[(size_t)i], e[i], m[i])) VFAIL("cross product component " << i << " = " << +c[(size_t)i] << ", expected " << +e[i]);
    }
  }
  // reductions
  {
    S mx = a[0], mn = a[0], sum = S(0), asum = S(0), sums = S(0);
    for (int i = 0; i < D; ++i) { if (mx < a[(size_t)i]) mx = a[(size_t)i]; if (a[(size_t)i] < mn) mn = a[(size_t)i]; sum = (S)(sum + a[(size_t)i]); asum = (S)(asum + absval<S>(a[(size_t)i])); sums = asum; }
    bool nan_in = false;
    if constexpr (FP) for (int i = 0; i < D; ++i) if (std::isnan(a[(size_t)i])) nan_in = true;
    if (!nan_in) {
      if (!same<S>(a.max(), mx) || !same<S>(a.min(), mn)) VFAIL("max()/min() = " << +a.max() << "/" << +a.min() << ", expected " << +mx << "/" << +mn);
      if (!close_to<S>(a.l1_norm(), asum, sums)) VFAIL("l1_norm() = " << +a.l1_norm() << ", sum of absolute values (Manhattan norm) = " << +asum);
      if (!close_to<S>(a.mean(), (S)(sum / (S)D), (S)(sums / (S)D + 1))) VFAIL("mean() = " << +a.mean() << ", arithmetic mean = " << +(S)(sum / (S)D));
      if constexpr (!std::is_unsigned<S>::value) {
        S amx = absval<S>(a[0]), amn = absval<S>(a[0]);
        for (int i = 0; i < D; ++i) { S x = absval<S>(a[(size_t)i]); if (amx < x) amx = x; if (x < amn) amn = x; }
        if (!same<S>(a.max_abs(), amx) || !same<S>(a.min_abs(), amn) || !same<S>(a.l8_norm(), amx)) VFAIL("max_abs/min_abs/l8_norm = " << +a.max_abs() << "/" << +a.min_abs() << "/" << +a.l8_norm() << ", expected " << +amx << "/" << +amn << "/" << +amx);
        if (!close_to<S>(a.mean_abs(), (S)(asum / (S)D), (S)(sums / (S)D + 1))) VFAIL("mean_abs() = " << +a.mean_abs() << ", expected " << +(S)(asum / (S)D));
      }
    }
    bool nanb = false;
    if constexpr (FP) for (int i = 0; i < D; ++i) if (std::isnan(a[(size_t)i]) || std::isnan(b[(size_t)i])) nanb = true;
    if (!nanb) {
      V lo = a.min(b), hi = a.max(b), x = a, y = a, p = a, q = a;
      x.minimize(b); y.maximize(b);
      bool strict = true, anylt = false, anygt = false;
      for (int i = 0; i < D; ++i) { if (a[(size_t)i] == b[(size_t)i]) strict = false; if (b[(size_t)i] < a[(size_t)i]) anylt = true; if (a[(size_t)i] < b[(size_t)i]) anygt = true; }
      bool rmin = p.minimized(b), rmax = q.maximized(b);
      for (int i = 0; i < D; ++i) {
        S el = b[(size_t)i] < a[(size_t)i] ? b[(size_t)i] : a[(size_t)i], eh = a[(size_t)i] < b[(size_t)i] ? b[(size_t)i] : a[(size_t)i];
        if (!same<S>(lo[(size_t)i], el) || !same<S>(x[(size_t)i], el) || !same<S>(p[(size_t)i], el)) VFAIL("min(b)/minimize/minimized component " << i);
        if (!same<S>(hi[(size_t)i], eh) || !same<S>(y[(size_t)i], eh) || !same<S>(q[(size_t)i], eh)) VFAIL("max(b)/maximize/maximized component " << i);
      }
      if (strict && (rmin != anylt || rmax != anygt)) VFAIL("minimized()/maximized() return " << rmin << "/" << rmax << ", expected " << anylt << "/" << anygt);
    }
  }
  // vectorize, conversions, stream round trip
  {
    V v = a; v.vectorize(s);
    V w(s), z = V::vectorized(s);
    for (int i = 0; i < D; ++i) if (!same<S>(v[(size_t)i], s) || !same<S>(w[(size_t)i], s) || !same<S>(z[(size_t)i], s)) VFAIL("vectorize / scalar constructor component " << i);
    VectorT<double, D> dv(a);
    VectorT<double, D> dw; dw = a;
    for (int i = 0; i < D; ++i) if (!same<double>(dv[(size_t)i], (double)a[(size_t)i]) || !same<double>(dw[(size_t)i], (double)a[(size_t)i])) VFAIL("conversion to double component " << i);
    bool finite = true;
    if constexpr (FP) for (int i = 0; i < D; ++i) if (!std::isfinite(a[(size_t)i])) finite = false;
    if (finite) {
      VectorT<float, D> fv(dv);
      for (int i = 0; i < D; ++i) if (!same<float>(fv[(size_t)i], (float)dv[(size_t)i])) VFAIL("conversion double->float component " << i);
      std::stringstream ss;
      ss.precision(std::numeric_limits<S>::max_digits10);
      ss << a;
      V back;
      ss >> back;
      if (!ss) VFAIL("stream input failed on the stream output '" << ss.str() << "'");
      for (int i = 0; i < D; ++i) if (!same<S>(back[(size_t)i], a[(size_t)i]) && !(a[(size_t)i] == S(0) && back[(size_t)i] == S(0))) VFAIL("operator<< / operator>> round trip component " << i << ": '" << ss.str() << "' -> " << +back[(size_t)i]);
    }
  }
  return "";
}

// ---- complete lattice enumeration ---------------------------------------------------------
template <class S, int D> std::string lattice() {
  const int lo = std::is_unsigned<S>::value ? 0 : -2;
  std::vector<VectorT<S, D>> all;
  int n = 1;
  for (int i = 0; i < D; ++i) n *= 5;
  for (int k = 0; k < n; ++k) { VectorT<S, D> v; int x = k; for (int i = 0; i < D; ++i) { v[(size_t)i] = (S)(lo + x % 5); x /= 5; } all.push_back(v); }
  for (auto &a : all)
    for (auto &b : all) {
      S s = (S)(lo + (int)((&a - &all[0]) + (&b - &all[0])) % 5);
      std::string r = check_pair<S, D>(a, b, s);
      if (!r.empty()) return r;
    }
  return "";
}

namespace target {

enum VOp { V_VEC, V_MESH_VERTEX, V_MESH_TET, V_MESH_HEX, V_MESH_POLY, V_COUNT };
const std::vector<OpInfo> &optable() {
  static const std::vector<OpInfo> t = {{"vector", 5}, {"mesh_vertex", 5}, {"mesh_tet", 4}, {"mesh_cube", 4}, {"mesh_poly", 5}};
  return t;
}
std::vector<std::pair<int, int>> weights(const std::string &) { return {{10, V_VEC}, {6, V_MESH_VERTEX}, {4, V_MESH_TET}, {2, V_MESH_HEX}, {3, V_MESH_POLY}}; }
static std::string oneline(std::string s) { for (auto &c : s) if (c == '\n' || c == '\r') c = ' '; return s; }

template <class S> S value_of(int code) {
  if constexpr (std::is_floating_point<S>::value) {
    static const double tab[] = {0.0, -0.0, 1.0, -1.0, 0.5, 2.0, 3.0, -3.0, 1e-30, 1e30, -1e30, INFINITY, -INFINITY, NAN, 4.9406564584124654e-324, 1.0 / 3.0,
                                 3.14159265358979323846, 1e15, 123456.789, -7.25, 2.220446049250313e-16, 1.0000000000000002, 0.1, -0.1, 1e-7, 65536.0, 1e38, 1e-38, 255.0, 1e300, -1e-300, 17.0};
    double base = tab[code % 32];
    int k = code / 32;  // 0..7: small perturbation
    return (S)(base * (1.0 + k * 0.125) + (k == 7 ? 1.0 : 0.0));
  } else if constexpr (std::is_unsigned<S>::value) return (S)(code * 3 % 1000);
  else return (S)((code - 128) * 7 % 1000);
}
template <class S, int D> VectorT<S, D> vec_of(const int *a, int shift) { VectorT<S, D> v; for (int i = 0; i < D; ++i) v[(size_t)i] = value_of<S>((a[(i + shift) % 5] + 37 * (i / 5)) % 256); return v; }

template <class S, int D> std::string pairs(const std::vector<const int *> &vecs, uint64_t &special) {
  for (size_t i = 0; i < vecs.size(); ++i)
    for (size_t j = 0; j < vecs.size(); ++j) {
      auto a = vec_of<S, D>(vecs[i], 0), b = vec_of<S, D>(vecs[j], (int)(i + 1) % 2);
      S s = value_of<S>(vecs[i][4]);
      if constexpr (std::is_floating_point<S>::value) for (int k = 0; k < D; ++k) if (!std::isfinite(a[(size_t)k]) || a[(size_t)k] == S(0) || std::fabs(a[(size_t)k]) < std::numeric_limits<S>::min()) { ++special; break; }
      std::string r = check_pair<S, D>(a, b, s);
      if (!r.empty()) return r;
    }
  return "";
}

// GeometryKernel queries against the formulas on the vertex positions (brute-force vertex sets)
template <class M> std::string geometry(M &m, uint64_t &n) {
  using P = typename M::PointT;
  using S = typename P::value_type;
  std::ostringstream o;
  auto near = [&](const P &x, const P &y, S scale) { for (int i = 0; i < 3; ++i) if (!close_to<S>(x[(size_t)i], y[(size_t)i], scale, 16)) return false; return true; };
  auto mag = [&](const P &p) { return std::fabs(p[0]) + std::fabs(p[1]) + std::fabs(p[2]); };
  for (auto e : m.edges()) {
    ++n;
    P a = m.vertex(m.edge(e).from_vertex()), b = m.vertex(m.edge(e).to_vertex());
    P d = b - a;
    S sc = mag(a) + mag(b);
    if (!near(m.vector(e), d, sc) || !near(m.vector(m.halfedge_handle(e, 0)), d, sc) || !near(m.vector(m.halfedge_handle(e, 1)), a - b, sc)) { o << "vector(edge " << e.idx() << ") differs from to - from"; return o.str(); }
    S len = std::sqrt(d[0] * d[0] + d[1] * d[1] + d[2] * d[2]);
    if (!close_to<S>(m.length(e), len, len + sc, 16) || !close_to<S>(m.length(m.halfedge_handle(e, 1)), len, len + sc, 16)) { o << "length(edge " << e.idx() << ") = " << m.length(e) << ", expected " << len; return o.str(); }
    if (!near(m.barycenter(e), (a + b) * S(0.5), sc)) { o << "barycenter(edge " << e.idx() << ") differs from the midpoint"; return o.str(); }
  }
  for (auto f : m.faces()) {
    ++n;
    P sum(S(0));
    S sc = 0;
    std::vector<P> pts;
    for (auto he : m.face(f).halfedges()) { P p = m.vertex(m.halfedge(he).from_vertex()); sum += p; sc += mag(p); pts.push_back(p); }
    if (!near(m.barycenter(f), sum / (S)pts.size(), sc)) { o << "barycenter(face " << f.idx() << ") differs from the mean of its vertices"; return o.str(); }
    if (pts.size() >= 3) {
      P c = (pts[1] - pts[0]) % (pts[2] - pts[1]);
      S l = std::sqrt(c[0] * c[0] + c[1] * c[1] + c[2] * c[2]);
      if (l > 0.01 * sc * sc && l > 1e-9) {  // well-conditioned (not nearly degenerate) faces only
        P e = c / l;
        P n0 = m.normal(m.halfface_handle(f, 0)), n1 = m.normal(m.halfface_handle(f, 1));
        if (!near(n0, e, S(4))) { o << "normal(halfface " << 2 * f.idx() << ") = " << n0 << ", cross product of its first two edges normalised = " << e; return o.str(); }
        // planar faces (triangles, axis-aligned quads): the two sides have opposite normals
        if (!near(n1, e * S(-1), S(1e4))) { o << "normals of the two sides of face " << f.idx() << " are not opposite: " << n0 << " and " << n1; return o.str(); }
      }
    }
  }
  for (auto c : m.cells()) {
    ++n;
    std::set<int> vs;
    for (auto hf : m.cell(c).halffaces()) for (auto he : m.face(m.face_handle(hf)).halfedges()) vs.insert(m.halfedge(he).from_vertex().idx());
    P sum(S(0));
    S sc = 0;
    for (int v : vs) { sum += m.vertex(VertexHandle(v)); sc += mag(m.vertex(VertexHandle(v))); }
    if (!near(m.barycenter(c), sum / (S)vs.size(), sc)) { o << "barycenter(cell " << c.idx() << ") differs from the mean of its vertices"; return o.str(); }
  }
  // NormalAttrib
  {
    NormalAttrib<M> na(m);
    na.update_vertex_normals();
    for (auto f : m.faces()) {
      P e = m.normal(m.halfface_handle(f, 0));
      bool nan = false;
      for (int i = 0; i < 3; ++i) if (std::isnan(e[(size_t)i])) nan = true;
      if (nan) continue;
      const NormalAttrib<M> &cna = na;  // the const accessors are separate overloads
      if (!near(cna[f], e, S(1)) || !near(cna[m.halfface_handle(f, 0)], e, S(1)) || !near(cna[m.halfface_handle(f, 1)], e * S(-1), S(1))) { o << "NormalAttrib (const access) normal of face " << f.idx() << " / its halffaces differs from normal(halfface 0) and its negation"; return o.str(); }
      if (!near(na[m.halfface_handle(f, 0)], e, S(1))) { o << "NormalAttrib halfface-0 normal of face " << f.idx() << " differs from normal(halfface 0)"; return o.str(); }
      if (!near(na[f], e, S(1)) || !near(na[m.halfface_handle(f, 1)], e * S(-1), S(1))) { o << "NormalAttrib face normal of face " << f.idx() << " differs from normal(halfface 0)"; return o.str(); }
    }
    for (auto v : m.vertices()) {
      P acc(S(0));
      std::set<int> hfs;
      for (auto he : m.outgoing_halfedges(v)) for (auto hf : m.halfedge_halffaces(he)) if (m.is_boundary(hf)) hfs.insert(hf.idx());
      for (int h : hfs) acc += na[HalfFaceHandle(h)];
      S l = std::sqrt(acc[0] * acc[0] + acc[1] * acc[1] + acc[2] * acc[2]);
      if (!(l > 1e-6)) continue;
      if (!near(na[v], acc / l, S(8))) { o << "NormalAttrib vertex normal of vertex " << v.idx() << " differs from the normalised sum of its boundary halfface normals"; return o.str(); }
    }
  }
  return "";
}

vf::CaseResult run_case(const std::string &id, const Program &prog, Stats &st) {
  CaseResult res;
  std::vector<const int *> vecs;
  GeometricTetrahedralMeshV3d tm;
  GeometricTetrahedralMeshV3f tf;
  GeometricHexahedralMeshV3d hm;
  std::string fail;
  for (auto &op : prog) {
    res.annot.push_back("");
    if (op.code == V_VEC && vecs.size() < 6) vecs.push_back(op.a);
    else if (op.code == V_MESH_VERTEX && tm.n_vertices() < 12) {
      auto c = [&](int k) { double v = value_of<double>(op.a[k] % 32 + 32 * (op.a[k] / 64)); return (std::isfinite(v) && std::fabs(v) < 1e6) ? v : (double)(op.a[k] % 17) - 8.0; };
      tm.add_vertex(Geometry::Vec3d(c(0), c(1), c(2)));
      tf.add_vertex(Geometry::Vec3f((float)c(0), (float)c(1), (float)c(2)));
    } else if (op.code == V_MESH_TET && tm.n_vertices() >= 4) {
      std::vector<VertexHandle> vs;
      for (int k = 0; k < 4; ++k) { VertexHandle v((int)((size_t)(op.a[0] + k * (1 + op.a[1] % 3)) % tm.n_vertices())); if (std::find(vs.begin(), vs.end(), v) == vs.end()) vs.push_back(v); }
      if (vs.size() == 4) { tm.add_cell(vs, true); tf.add_cell(vs, true); }
    } else if (op.code == V_MESH_HEX && hm.n_cells() < 3) {
      double ox = op.a[0] % 5, oy = op.a[1] % 5 * 1.5, oz = hm.n_cells() * 2.0, sx = 1 + op.a[2] % 3, sy = 0.5 + op.a[3] % 4;
      static const int P[8][3] = {{0, 0, 0}, {1, 0, 0}, {1, 1, 0}, {0, 1, 0}, {0, 0, 1}, {0, 1, 1}, {1, 1, 1}, {1, 0, 1}};
      std::vector<VertexHandle> vs;
      for (auto &p : P) vs.push_back(hm.add_vertex(Geometry::Vec3d(ox + sx * p[0], oy + sy * p[1], oz + p[2])));
      hm.add_cell(vs, true);
    }
  }
  uint64_t special = 0, geo = 0;
  uint64_t before = g_checks;
  // general polyhedra: pyramids and prisms over irregular planar 3..6-gons (vertices lie in different numbers of faces)
  GeometricPolyhedralMeshV3d pm;
  for (size_t oi = 0; oi < prog.size(); ++oi) {
    const Op &op = prog[oi];
    if (op.code != V_MESH_POLY || pm.n_cells() >= 3) continue;
    int n = 3 + op.a[0] % 4;
    bool prism = op.a[1] % 2;
    double ox = 7.0 * pm.n_cells() + (op.a[2] % 5) * 0.25, oy = (op.a[3] % 7) - 3.0, oz = (op.a[4] % 4) * 0.5;
    std::vector<VertexHandle> b, t;
    for (int i = 0; i < n; ++i) {
      double ang = 6.283185307179586 * i / n, r = 1.0 + 0.5 * ((op.a[2] / 5 + i * 3) % 4);
      b.push_back(pm.add_vertex(Geometry::Vec3d(ox + r * std::cos(ang), oy + r * std::sin(ang), oz)));
    }
    Geometry::Vec3d shift(0.5 * (op.a[3] % 3), -0.25 * (op.a[4] % 5), 1.0 + (op.a[0] / 4) % 3);
    std::vector<HalfFaceHandle> hfs;
    hfs.push_back(pm.halfface_handle(pm.add_face(b), 0));
    if (prism) {
      for (int i = 0; i < n; ++i) t.push_back(pm.add_vertex(pm.vertex(b[(size_t)i]) + shift));
      hfs.push_back(pm.halfface_handle(pm.add_face(std::vector<VertexHandle>(t.rbegin(), t.rend())), 0));
      for (int i = 0; i < n; ++i) { int j = (i + 1) % n; hfs.push_back(pm.halfface_handle(pm.add_face(std::vector<VertexHandle>{b[(size_t)j], b[(size_t)i], t[(size_t)i], t[(size_t)j]}), 0)); }
    } else {
      VertexHandle apex = pm.add_vertex(Geometry::Vec3d(ox, oy, oz) + shift);
      for (int i = 0; i < n; ++i) { int j = (i + 1) % n; hfs.push_back(pm.halfface_handle(pm.add_face(std::vector<VertexHandle>{b[(size_t)j], b[(size_t)i], apex}), 0)); }
    }
    CellHandle c = pm.add_cell(hfs, true);
    res.annot[oi] = std::string(prism ? "prism" : "pyramid") + " over a " + std::to_string(n) + "-gon -> cell " + std::to_string(c.idx());
    st.count(prism ? "poly_prisms" : "poly_pyramids");
  }
#define RUN(S, D) if (fail.empty()) fail = pairs<S, D>(vecs, special);
  RUN(int, 2) RUN(int, 3) RUN(int, 4) RUN(unsigned, 2) RUN(unsigned, 3) RUN(unsigned, 4) RUN(float, 2) RUN(float, 3) RUN(float, 4) RUN(double, 2) RUN(double, 3) RUN(double, 4)
#undef RUN
  if (fail.empty()) fail = geometry(tm, geo);
  if (fail.empty()) fail = geometry(tf, geo);
  if (fail.empty()) fail = geometry(hm, geo);
  if (fail.empty()) fail = geometry(pm, geo);
  st.count("vector_pair_checks", g_checks - before); st.count("pairs_with_special_values", special); st.count("geometry_entities_checked", geo);
  res.nontrivial = (vecs.size() >= 2 && special > 0) || geo > 0;
  if (!fail.empty()) { res.ok = false; res.msg = oneline(fail); }
  (void)id;
  return res;
}

}  // namespace target

int main(int argc, char **argv) {
  if (argc >= 2 && std::string(argv[1]) == "--lattice") {
    std::string out = argc >= 4 ? argv[3] : "lattice.json";
    std::string fail;
#define LAT(S, D) if (fail.empty()) fail = lattice<S, D>();
    LAT(int, 2) LAT(int, 3) LAT(int, 4) LAT(unsigned, 2) LAT(unsigned, 3) LAT(unsigned, 4) LAT(float, 2) LAT(float, 3) LAT(float, 4) LAT(double, 2) LAT(double, 3) LAT(double, 4)
#undef LAT
    std::ofstream f(out);
    f << "{\"lattice_pairs\": " << g_checks << ", \"fail\": \"" << json_escape(fail) << "\"}\n";
    if (!fail.empty()) { std::cout << "LATTICE-FAIL " << fail << "\n"; return 1; }
    return 0;
  }
  return vf::generic_main(argc, argv);
}
