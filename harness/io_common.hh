// Shared by the OVMB targets (C06 round trip, C18 fault enumeration, C07 fuzz seeds):
// typed persistent properties over every registered OVMB codec, mesh <-> RefMesh conversion,
// mesh comparison, simple tet / hex mesh builders.
#pragma once
#include "common.hh"
#include "ovmb_ref.hh"
#include <OpenVolumeMesh/IO/ovmb_read.hh>
#include <OpenVolumeMesh/IO/ovmb_write.hh>
#include <OpenVolumeMesh/Mesh/HexahedralMesh.hh>
#include <OpenVolumeMesh/Mesh/PolyhedralMesh.hh>
#include <OpenVolumeMesh/Mesh/TetrahedralMesh.hh>
#include <cfloat>
#include <cmath>
#include <functional>
#include <limits>
#include <sstream>

namespace vfio {
using namespace OpenVolumeMesh;
using ovmbref::Bytes;
using ovmbref::RefMesh;
using ovmbref::RefProp;
using ovmbref::W;

// ---- value generators (code -> value) and canonical encoders per registered type ----
template <class T> struct Val;
#define INT_VAL(T, UT, put)                                                                                     \
  template <> struct Val<T> {                                                                                   \
    static T gen(int c) {                                                                                       \
      switch (c % 7) { case 0: return 0; case 1: return std::numeric_limits<T>::max(); case 2: return std::numeric_limits<T>::min(); \
                       case 3: return (T)-1; default: return (T)((long long)c * 2654435761ll + 12345); }       \
    }                                                                                                           \
    static void enc(W &w, const T &v) { w.put((UT)v); }                                                         \
  };
INT_VAL(uint8_t, uint8_t, u8) INT_VAL(int8_t, uint8_t, u8) INT_VAL(uint16_t, uint16_t, u16) INT_VAL(int16_t, uint16_t, u16)
INT_VAL(uint32_t, uint32_t, u32) INT_VAL(int32_t, uint32_t, u32) INT_VAL(uint64_t, uint64_t, u64) INT_VAL(int64_t, uint64_t, u64)
#undef INT_VAL
template <> struct Val<bool> {
  static bool gen(int c) { return (c * 7 + c / 3) & 1; }
  static void enc(W &w, const bool &v) { w.u8(v ? 1 : 0); }
};
template <> struct Val<double> {
  static double gen(int c) {
    switch (c % 11) {
    case 0: return 0.0; case 1: return -0.0; case 2: return std::numeric_limits<double>::infinity(); case 3: return -std::numeric_limits<double>::infinity();
    case 4: { uint64_t b = 0x7ff8000000001234ull; double d; memcpy(&d, &b, 8); return d; }  // NaN with payload
    case 5: return 4.9406564584124654e-324; case 6: return DBL_MAX; case 7: return -2.25e10; case 8: return 1.0 / 3.0;
    default: return c * 0.37 - 5.5;
    }
  }
  static void enc(W &w, const double &v) { w.f64(v); }
};
template <> struct Val<float> {
  static float gen(int c) {
    switch (c % 11) {
    case 0: return 0.0f; case 1: return -0.0f; case 2: return std::numeric_limits<float>::infinity(); case 3: return -std::numeric_limits<float>::infinity();
    case 4: { uint32_t b = 0x7fc01234u; float d; memcpy(&d, &b, 4); return d; }
    case 5: return 1.4e-45f; case 6: return FLT_MAX; case 7: return -2.25e10f; case 8: return 1.0f / 3.0f;
    default: return (float)c * 0.37f - 5.5f;
    }
  }
  static void enc(W &w, const float &v) { w.f32(v); }
};
template <> struct Val<std::string> {
  static std::string gen(int c) {
    switch (c % 8) {
    case 0: return ""; case 1: return "a b"; case 2: return std::string("nul\0byte", 8); case 3: return std::string(300, 'x');
    case 4: return "\xc3\xa4\xe2\x82\xac\n\t\""; case 5: return " lead"; default: return "s" + std::to_string(c);
    }
  }
  static void enc(W &w, const std::string &v) { w.u32((uint32_t)v.size()); w.str(v); }
};
#define HANDLE_VAL(H)                                                                                 \
  template <> struct Val<H> {                                                                         \
    static H gen(int c) { return H(c % 5 == 0 ? -1 : c % 5 == 1 ? 0 : c % 5 == 2 ? 0x7fffffff : c * 31); } \
    static void enc(W &w, const H &v) { w.u32((uint32_t)v.idx()); }                                   \
  };
HANDLE_VAL(VH) HANDLE_VAL(EH) HANDLE_VAL(HEH) HANDLE_VAL(FH) HANDLE_VAL(HFH) HANDLE_VAL(CH)
#undef HANDLE_VAL
template <class S, int N> struct Val<VectorT<S, N>> {
  using V = VectorT<S, N>;
  static V gen(int c) { V v; for (int i = 0; i < N; ++i) v[(size_t)i] = Val<S>::gen(c + 3 * i); return v; }
  static void enc(W &w, const V &v) { for (int i = 0; i < N; ++i) Val<S>::enc(w, v[(size_t)i]); }
};
template <class T> Bytes enc_bytes(const T &v) { W w; Val<T>::enc(w, v); return w.b; }

// ---- registered types --------------------------------------------------------------
#define IO_TYPES(X)                                                                                                             \
  X(0, bool, "b") X(1, uint8_t, "u8") X(2, uint16_t, "u16") X(3, uint32_t, "u32") X(4, uint64_t, "u64") X(5, int8_t, "i8")       \
  X(6, int16_t, "i16") X(7, int32_t, "i32") X(8, int64_t, "i64") X(9, float, "f") X(10, double, "d") X(11, std::string, "s32")    \
  X(12, VH, "vh") X(13, EH, "eh") X(14, HEH, "heh") X(15, FH, "fh") X(16, HFH, "hfh") X(17, CH, "ch")                             \
  X(18, Geometry::Vec2d, "2d") X(19, Geometry::Vec3d, "3d") X(20, Geometry::Vec4d, "4d") X(21, Geometry::Vec2f, "2f")             \
  X(22, Geometry::Vec3f, "3f") X(23, Geometry::Vec4f, "4f") X(24, Geometry::Vec2ui, "2u32") X(25, Geometry::Vec3ui, "3u32")       \
  X(26, Geometry::Vec4ui, "4u32") X(27, Geometry::Vec2i, "2i32") X(28, Geometry::Vec3i, "3i32") X(29, Geometry::Vec4i, "4i32")
static const int N_IO_TYPES = 30;

// entity numbering of the file format: 0 vertex 1 edge 2 face 3 cell 4 halfedge 5 halfface 6 mesh
template <class Tag> struct EntNo;
template <> struct EntNo<Entity::Vertex> { static const int v = 0; };
template <> struct EntNo<Entity::Edge> { static const int v = 1; };
template <> struct EntNo<Entity::Face> { static const int v = 2; };
template <> struct EntNo<Entity::Cell> { static const int v = 3; };
template <> struct EntNo<Entity::HalfEdge> { static const int v = 4; };
template <> struct EntNo<Entity::HalfFace> { static const int v = 5; };
template <> struct EntNo<Entity::Mesh> { static const int v = 6; };

struct IOProp {
  int ent, type;
  std::string name, type_name;
  std::function<RefProp(ResourceManager &)> to_ref;
  std::function<std::string(ResourceManager &, ResourceManager &)> compare;  // "" if equal (second = read back)
  std::function<void(ResourceManager &, size_t, int)> write;
  std::function<size_t(ResourceManager &)> size;
};

template <class T, class Tag> IOProp make_io_prop(ResourceManager &rm, const std::string &name, const char *type_name, int type, int defcode) {
  using H = typename PropertyPtr<T, Tag>::EntityHandleT;
  auto created = rm.create_persistent_property<T, Tag>(name, Val<T>::gen(defcode));
  IOProp p;
  p.ent = EntNo<Tag>::v; p.type = type; p.name = name; p.type_name = type_name;
  p.size = [name](ResourceManager &r) { auto q = r.get_property<T, Tag>(name); return q ? q->size() : (size_t)0; };
  p.write = [name](ResourceManager &r, size_t idx, int code) { auto q = r.get_property<T, Tag>(name); if (q && q->size()) (*q)[H((int)(idx % q->size()))] = Val<T>::gen(code); };
  p.to_ref = [name, type_name](ResourceManager &r) {
    RefProp rp;
    rp.entity = (uint8_t)EntNo<Tag>::v; rp.name = name; rp.type_name = type_name;
    auto q = r.get_property<T, Tag>(name);
    if (!q) return rp;
    rp.def = enc_bytes<T>(q->def());
    for (size_t i = 0; i < q->size(); ++i) { T v = (*q)[H((int)i)]; rp.elems.push_back(enc_bytes<T>(v)); }
    return rp;
  };
  p.compare = [name](ResourceManager &a, ResourceManager &b) -> std::string {
    auto pa = a.get_property<T, Tag>(name);
    auto pb = b.get_property<T, Tag>(name);
    if (!pa) return "";
    if (!pb) return "property '" + name + "' is missing after reading back";
    if (!pb->persistent()) return "property '" + name + "' is not persistent after reading back";
    if (pa->size() != pb->size()) return "property '" + name + "' has " + std::to_string(pb->size()) + " elements, expected " + std::to_string(pa->size());
    if (enc_bytes<T>(pa->def()) != enc_bytes<T>(pb->def())) return "default value of property '" + name + "' differs after reading back";
    for (size_t i = 0; i < pa->size(); ++i) {
      T x = (*pa)[H((int)i)], y = (*pb)[H((int)i)];
      if (enc_bytes<T>(x) != enc_bytes<T>(y)) return "property '" + name + "' element " + std::to_string(i) + " differs after reading back (not bit-exact)";
    }
    return "";
  };
  (void)created;
  return p;
}

template <class Tag> IOProp make_io_prop_t(ResourceManager &rm, const std::string &name, int type, int defcode) {
  switch (type) {
#define X(i, T, n) case i: return make_io_prop<T, Tag>(rm, name, n, i, defcode);
    IO_TYPES(X)
#undef X
  }
  return make_io_prop<bool, Tag>(rm, name, "b", 0, defcode);
}
// all types on vertices and halffaces; bool, i32, double, string on every kind
inline IOProp make_io_prop_kt(ResourceManager &rm, int kind, int type, const std::string &name, int defcode) {
  static const int basic[4] = {0, 7, 10, 11};
  switch (kind % 7) {
  case 0: return make_io_prop_t<Entity::Vertex>(rm, name, type % N_IO_TYPES, defcode);
  case 5: return make_io_prop_t<Entity::HalfFace>(rm, name, type % N_IO_TYPES, defcode);
#define BASIC(K, Tag)                                                                                         \
  case K:                                                                                                     \
    switch (basic[type % 4]) {                                                                                \
    case 0: return make_io_prop<bool, Tag>(rm, name, "b", 0, defcode);                                        \
    case 7: return make_io_prop<int32_t, Tag>(rm, name, "i32", 7, defcode);                                   \
    case 10: return make_io_prop<double, Tag>(rm, name, "d", 10, defcode);                                    \
    default: return make_io_prop<std::string, Tag>(rm, name, "s32", 11, defcode);                             \
    }
    BASIC(1, Entity::Edge) BASIC(2, Entity::Face) BASIC(3, Entity::Cell) BASIC(4, Entity::HalfEdge)
  default:
    BASIC(6, Entity::Mesh)
#undef BASIC
  }
}

// ---- mesh -> RefMesh, mesh comparison ------------------------------------------------
template <class M> RefMesh to_ref(M &m, int topo_type, std::vector<IOProp> &props) {
  RefMesh r;
  r.topo_type = (uint8_t)topo_type;
  r.vertex_dim = 3;
  r.nv = m.n_vertices();
  for (size_t v = 0; v < m.n_vertices(); ++v) for (int d = 0; d < 3; ++d) r.pos.push_back((double)m.vertex(VertexHandle((int)v))[(size_t)d]);
  for (size_t e = 0; e < m.n_edges(); ++e) r.edges.emplace_back((uint32_t)m.edge(EdgeHandle((int)e)).from_vertex().idx(), (uint32_t)m.edge(EdgeHandle((int)e)).to_vertex().idx());
  for (size_t f = 0; f < m.n_faces(); ++f) { std::vector<uint32_t> l; for (auto h : m.face(FaceHandle((int)f)).halfedges()) l.push_back((uint32_t)h.idx()); r.faces.push_back(l); }
  for (size_t c = 0; c < m.n_cells(); ++c) { std::vector<uint32_t> l; for (auto h : m.cell(CellHandle((int)c)).halffaces()) l.push_back((uint32_t)h.idx()); r.cells.push_back(l); }
  for (auto &p : props) r.props.push_back(p.to_ref(m));
  return r;
}

inline bool same_double(double a, double b) { return memcmp(&a, &b, 8) == 0; }

// topology + positions + persistent properties of `b` (read back) equal those of `a`
template <class MA, class MB> std::string compare_meshes(MA &a, MB &b, std::vector<IOProp> &props, bool float_positions) {
  std::ostringstream o;
  if (a.n_vertices() != b.n_vertices() || a.n_edges() != b.n_edges() || a.n_faces() != b.n_faces() || a.n_cells() != b.n_cells()) {
    o << "entity counts V/E/F/C " << b.n_vertices() << "/" << b.n_edges() << "/" << b.n_faces() << "/" << b.n_cells() << " differ from the written mesh "
      << a.n_vertices() << "/" << a.n_edges() << "/" << a.n_faces() << "/" << a.n_cells();
    return o.str();
  }
  if (b.needs_garbage_collection()) return "mesh read back has pending deletions";
  for (size_t e = 0; e < a.n_edges(); ++e) {
    EdgeHandle h((int)e);
    if (a.edge(h).from_vertex() != b.edge(h).from_vertex() || a.edge(h).to_vertex() != b.edge(h).to_vertex()) { o << "edge " << e << " differs after reading back"; return o.str(); }
  }
  for (size_t f = 0; f < a.n_faces(); ++f) if (a.face(FaceHandle((int)f)).halfedges() != b.face(FaceHandle((int)f)).halfedges()) { o << "face " << f << " differs after reading back"; return o.str(); }
  for (size_t c = 0; c < a.n_cells(); ++c) if (a.cell(CellHandle((int)c)).halffaces() != b.cell(CellHandle((int)c)).halffaces()) { o << "cell " << c << " differs after reading back"; return o.str(); }
  for (size_t v = 0; v < a.n_vertices(); ++v)
    for (int d = 0; d < 3; ++d) {
      double x = (double)a.vertex(VertexHandle((int)v))[(size_t)d], y = (double)b.vertex(VertexHandle((int)v))[(size_t)d];
      if (float_positions) x = (double)(float)x;
      if (!same_double(x, y) && !(std::isnan(x) && std::isnan(y))) { o << "position of vertex " << v << " differs after reading back (" << y << " vs " << x << ")"; return o.str(); }
    }
  for (auto &p : props) { std::string m = p.compare(a, b); if (!m.empty()) return m; }
  // no additional persistent properties appear
  size_t na = a.template n_persistent_props<Entity::Vertex>() + a.template n_persistent_props<Entity::Edge>() + a.template n_persistent_props<Entity::HalfEdge>() +
              a.template n_persistent_props<Entity::Face>() + a.template n_persistent_props<Entity::HalfFace>() + a.template n_persistent_props<Entity::Cell>() + a.template n_persistent_props<Entity::Mesh>();
  size_t nb = b.template n_persistent_props<Entity::Vertex>() + b.template n_persistent_props<Entity::Edge>() + b.template n_persistent_props<Entity::HalfEdge>() +
              b.template n_persistent_props<Entity::Face>() + b.template n_persistent_props<Entity::HalfFace>() + b.template n_persistent_props<Entity::Cell>() + b.template n_persistent_props<Entity::Mesh>();
  if (na != nb) { o << "read-back mesh has " << nb << " persistent properties, the written mesh " << na; return o.str(); }
  return "";
}

// RefMesh (decoded from bytes by the reference decoder) equals RefMesh derived from the mesh
inline std::string compare_ref(const RefMesh &exp, const RefMesh &got) {
  std::ostringstream o;
  if (exp.topo_type != got.topo_type) { o << "topo_type " << (int)got.topo_type << " != " << (int)exp.topo_type; return o.str(); }
  if (exp.vertex_dim != got.vertex_dim || exp.nv != got.nv) return "vertex count / dimension differ";
  if (exp.nv && exp.pos.size() != got.pos.size()) return "number of coordinates differs";
  for (size_t i = 0; i < exp.pos.size() && i < got.pos.size(); ++i) if (!same_double(exp.pos[i], got.pos[i])) { o << "coordinate " << i << " differs"; return o.str(); }
  if (exp.edges != got.edges) return "edges differ";
  if (exp.faces != got.faces) return "faces differ";
  if (exp.cells != got.cells) return "cells differ";
  if (exp.props.size() != got.props.size()) { o << got.props.size() << " properties in the file, expected " << exp.props.size(); return o.str(); }
  for (auto &p : exp.props) {
    bool found = false;
    for (auto &q : got.props) if (p == q) found = true;
    if (!found) return "property '" + p.name + "' (" + p.type_name + ") not found identically in the decoded file";
  }
  return "";
}

inline std::string write_ovmb_bytes(const std::function<IO::WriteResult(std::ostream &)> &wr, Bytes &out) {
  std::ostringstream ss(std::ios::binary);
  IO::WriteResult r = wr(ss);
  std::string s = ss.str();
  out.assign(s.begin(), s.end());
  return r == IO::WriteResult::Ok ? "" : std::string("ovmb_write returned ") + IO::to_string(r);
}

template <class M> IO::ReadResult read_ovmb_bytes(const Bytes &b, M &m, bool topo_check, bool bottom_up) {
  std::istringstream ss(std::string(b.begin(), b.end()), std::ios::binary);
  IO::ReadOptions ro;
  ro.topology_check = topo_check;
  ro.bottom_up_incidences = bottom_up;
  return IO::ovmb_read(ss, m, ro);
}

}  // namespace vfio
