// C10: lookup queries are sound and complete (validity predicates against brute-force search).
#pragma once
#include "oracle_c01.hh"

namespace vf {

struct C10Ctx {
  uint64_t queries = 0, positive = 0, negative = 0, skipped_parallel = 0, skipped_nonsimple = 0;
  int salt = 0;  // generated: perturbs which tuples are tried
};

template <class M> std::string c10_sweep(const M &m, C10Ctx &cx) {
  if (!m.has_full_bottom_up_incidences()) return "";
  BruteForce bf;
  bf.build(m);
  if (bf.two_cells_on_halfface) return "";
  std::ostringstream o;
  const int nv = (int)m.n_vertices(), ne = (int)m.n_edges(), nf = (int)m.n_faces(), nc = (int)m.n_cells();
  std::vector<int> lv;
  for (int v = 0; v < nv; ++v) if (bf.v_live[(size_t)v]) lv.push_back(v);
  auto he_from = [&](int he) { const auto &e = m.edge(EdgeHandle(he / 2)); return (he & 1) ? e.to_vertex().idx() : e.from_vertex().idx(); };
  auto he_to = [&](int he) { return he_from(he ^ 1); };
  auto hf_hes = [&](int hf) {
    std::vector<int> r;
    const auto &l = m.face(FaceHandle(hf / 2)).halfedges();
    if (!(hf & 1)) for (auto h : l) r.push_back(h.idx());
    else for (auto it = l.rbegin(); it != l.rend(); ++it) r.push_back(it->idx() ^ 1);
    return r;
  };
  auto hf_vs = [&](int hf) { std::vector<int> r; for (int h : hf_hes(hf)) r.push_back(he_from(h)); return r; };
  // simple face: closed loop in which every vertex occurs once
  auto simple = [&](int f) {
    auto hes = hf_hes(2 * f);
    auto vs = hf_vs(2 * f);
    if (uniq(vs).size() != vs.size()) return false;
    for (size_t i = 0; i < hes.size(); ++i) if (he_to(hes[i]) != he_from(hes[(i + 1) % hes.size()])) return false;
    return true;
  };
  std::vector<char> f_simple((size_t)nf, 0);
  bool all_simple = true;
  for (int f = 0; f < nf; ++f) if (bf.f_live[(size_t)f]) { f_simple[(size_t)f] = simple(f); if (!f_simple[(size_t)f]) all_simple = false; }
  if (!all_simple) { ++cx.skipped_nonsimple; return ""; }  // "consecutive" is ambiguous otherwise
  // number of live halfedges a->b
  auto hes_between = [&](int a, int b) {
    std::vector<int> r;
    for (int he : bf.out[(size_t)a]) if (he_to(he) == b) r.push_back(he);
    return r;
  };

  // find_halfedge over all ordered pairs
  for (int a : lv)
    for (int b : lv) {
      ++cx.queries;
      auto ex = hes_between(a, b);
      HalfEdgeHandle r = m.find_halfedge(VertexHandle(a), VertexHandle(b));
      if (ex.empty()) { ++cx.negative; if (r.is_valid()) { o << "find_halfedge(" << a << "," << b << ") = " << r.idx() << " but no live halfedge joins them"; return o.str(); } }
      else {
        ++cx.positive;
        if (!r.is_valid() || std::find(ex.begin(), ex.end(), r.idx()) == ex.end()) { o << "find_halfedge(" << a << "," << b << ") = " << r.idx() << ", live halfedges " << vec_str(ex) << " exist"; return o.str(); }
      }
    }

  auto consecutive3 = [&](int hf, int v0, int v1, int v2) {
    auto vs = hf_vs(hf);
    size_t n = vs.size();
    for (size_t i = 0; i < n; ++i) if (vs[i] == v0 && vs[(i + 1) % n] == v1 && vs[(i + 2) % n] == v2) return true;
    return false;
  };
  auto check_find_hf_vs = [&](const std::vector<int> &q) -> std::string {
    // parallel duplicate edges between consecutive query vertices make the edge-based lookup ambiguous: excluded, counted
    if (hes_between(q[0], q[1]).size() > 1 || hes_between(q[1], q[2]).size() > 1) { ++cx.skipped_parallel; return ""; }
    std::vector<VertexHandle> vq;
    for (int v : q) vq.push_back(VertexHandle(v));
    std::vector<int> cand, cand_ext;
    for (int hf = 0; hf < 2 * nf; ++hf) {
      if (!bf.f_live[(size_t)hf / 2]) continue;
      if (consecutive3(hf, q[0], q[1], q[2])) cand.push_back(hf);
      if (is_rotation(hf_vs(hf), q)) cand_ext.push_back(hf);
    }
    ++cx.queries;
    int r = m.find_halfface(vq).idx();
    if (cand.empty() ? r >= 0 : std::find(cand.begin(), cand.end(), r) == cand.end()) {
      o << "find_halfface(vertices " << vec_str(q) << ") = " << r << ", halffaces with these vertices consecutively: " << vec_str(cand);
      return o.str();
    }
    ++cx.queries;
    int r2 = m.find_halfface_extensive(vq).idx();
    if (cand_ext.empty() ? r2 >= 0 : std::find(cand_ext.begin(), cand_ext.end(), r2) == cand_ext.end()) {
      o << "find_halfface_extensive(" << vec_str(q) << ") = " << r2 << ", halffaces with exactly this cycle: " << vec_str(cand_ext);
      return o.str();
    }
    (cand.empty() ? cx.negative : cx.positive)++;
    return "";
  };
  std::string r;
  for (int hf = 0; hf < 2 * nf; ++hf) {
    if (!bf.f_live[(size_t)hf / 2]) continue;
    auto vs = hf_vs(hf);
    auto hes = hf_hes(hf);
    size_t n = vs.size();
    // get_halfface_vertices, three forms
    {
      std::vector<int> g;
      for (auto v : m.get_halfface_vertices(HalfFaceHandle(hf))) g.push_back(v.idx());
      ++cx.queries;
      if (g != vs) { o << "get_halfface_vertices(" << hf << ") = " << vec_str(g) << ", cycle is " << vec_str(vs); return o.str(); }
      for (size_t i = 0; i < n; ++i) {
        std::vector<int> exp, g1, g2;
        for (size_t k = 0; k < n; ++k) exp.push_back(vs[(i + k) % n]);
        for (auto v : m.get_halfface_vertices(HalfFaceHandle(hf), VertexHandle(vs[i]))) g1.push_back(v.idx());
        for (auto v : m.get_halfface_vertices(HalfFaceHandle(hf), HalfEdgeHandle(hes[i]))) g2.push_back(v.idx());
        cx.queries += 2;
        if (g1 != exp) { o << "get_halfface_vertices(" << hf << ", VH " << vs[i] << ") = " << vec_str(g1) << ", expected " << vec_str(exp); return o.str(); }
        if (g2 != exp) { o << "get_halfface_vertices(" << hf << ", HEH " << hes[i] << ") = " << vec_str(g2) << ", expected " << vec_str(exp); return o.str(); }
      }
    }
    if (n < 3) continue;
    for (size_t i = 0; i < n; ++i) {
      std::vector<int> q;
      for (size_t k = 0; k < n; ++k) q.push_back(vs[(i + k) % n]);
      if (!(r = check_find_hf_vs(q)).empty()) return r;                 // rotated: must be found
      std::vector<int> rev(q.rbegin(), q.rend());
      if (!(r = check_find_hf_vs(rev)).empty()) return r;               // reversed: the opposite halfface
      std::vector<int> pert = q;                                        // one vertex replaced
      pert[(i + (size_t)cx.salt) % n] = lv[((size_t)hf * 7 + i * 3 + (size_t)cx.salt) % lv.size()];
      if (uniq(pert).size() == pert.size() && !(r = check_find_hf_vs(pert)).empty()) return r;
      if (n > 3) { std::vector<int> q3(q.begin(), q.begin() + 3); if (!(r = check_find_hf_vs(q3)).empty()) return r; }
    }
    // vertices from a different face
    {
      int other = (hf + 2 + 2 * cx.salt) % (2 * nf);
      if (bf.f_live[(size_t)other / 2]) {
        auto ovs = hf_vs(other);
        if (ovs.size() >= 3) {
          std::vector<int> q{vs[0], vs[1], ovs[(size_t)cx.salt % ovs.size()]};
          if (uniq(q).size() == 3 && !(r = check_find_hf_vs(q)).empty()) return r;
        }
      }
    }
    // find_halfface(halfedges): all pairs of halfedges (he0 from this halfface, he1 arbitrary live)
    for (size_t i = 0; i < n; ++i)
      for (int he1 = (int)((i + (size_t)cx.salt) % 3); he1 < 2 * ne; he1 += 3) {
        if (!bf.e_live[(size_t)he1 / 2]) continue;
        std::vector<int> cand;
        for (int g : bf.hfs[(size_t)hes[i]]) { auto gl = hf_hes(g); if (std::find(gl.begin(), gl.end(), he1) != gl.end()) cand.push_back(g); }
        ++cx.queries;
        int got = m.find_halfface(std::vector<HalfEdgeHandle>{HalfEdgeHandle(hes[i]), HalfEdgeHandle(he1)}).idx();
        if (cand.empty() ? got >= 0 : std::find(cand.begin(), cand.end(), got) == cand.end()) {
          o << "find_halfface(halfedges " << hes[i] << "," << he1 << ") = " << got << ", halffaces containing both: " << vec_str(cand);
          return o.str();
        }
        (cand.empty() ? cx.negative : cx.positive)++;
      }
    // is_incident(face, edge)
    if (!(hf & 1))
      for (int e = 0; e < ne; ++e) {
        if (!bf.e_live[(size_t)e]) continue;
        bool exp = false;
        for (int h : hes) if (h / 2 == e) exp = true;
        ++cx.queries;
        if (m.is_incident(FaceHandle(hf / 2), EdgeHandle(e)) != exp) { o << "is_incident(FH " << hf / 2 << ", EH " << e << ") = " << !exp << ", brute force says " << exp; return o.str(); }
      }
  }

  // per cell: n_vertices_in_cell, find_halfedge_in_cell, find_halfface_in_cell (closed cells)
  for (int c = 0; c < nc; ++c) {
    if (!bf.c_live[(size_t)c]) continue;
    auto chf = m.cell(CellHandle(c)).halffaces();
    std::map<int, int> cnt;
    std::vector<int> cvs;
    for (auto hf : chf) for (int he : hf_hes(hf.idx())) { cnt[he]++; cvs.push_back(he_to(he)); }
    ++cx.queries;
    if (m.n_vertices_in_cell(CellHandle(c)) != uniq(cvs).size()) { o << "n_vertices_in_cell(" << c << ") = " << m.n_vertices_in_cell(CellHandle(c)) << ", brute force " << uniq(cvs).size(); return o.str(); }
    bool closed = !chf.empty();
    for (auto &kv : cnt) if (kv.second != 1 || !cnt.count(kv.first ^ 1) || cnt[kv.first ^ 1] != 1) closed = false;
    for (auto hf : chf) for (auto g : chf) if (g.idx() == (hf.idx() ^ 1)) closed = false;  // self-adjacent cells: adjacency ambiguous for the lookup
    if (!closed) continue;
    for (int a : lv)
      for (int b : lv) {
        if (a == b) continue;
        std::vector<int> cand;
        for (auto &kv : cnt) if (he_from(kv.first) == a && he_to(kv.first) == b) cand.push_back(kv.first);
        ++cx.queries;
        int got = m.find_halfedge_in_cell(VertexHandle(a), VertexHandle(b), CellHandle(c)).idx();
        if (cand.empty() ? got >= 0 : std::find(cand.begin(), cand.end(), got) == cand.end()) {
          o << "find_halfedge_in_cell(" << a << "," << b << ", cell " << c << ") = " << got << ", halfedges of the cell joining them: " << vec_str(cand);
          return o.str();
        }
        (cand.empty() ? cx.negative : cx.positive)++;
      }
    for (auto hf : chf) {
      auto vs = hf_vs(hf.idx());
      size_t n = vs.size();
      if (n < 3) continue;
      for (size_t i = 0; i < n; ++i)
        for (int variant = 0; variant < 3; ++variant) {
          std::vector<int> q{vs[i], vs[(i + 1) % n], vs[(i + 2) % n]};
          if (variant == 1) std::swap(q[0], q[2]);
          if (variant == 2) q[2] = lv[((size_t)c + i + (size_t)cx.salt) % lv.size()];
          if (uniq(q).size() != 3) continue;
          std::vector<int> cand;
          for (auto g : chf) if (consecutive3(g.idx(), q[0], q[1], q[2])) cand.push_back(g.idx());
          ++cx.queries;
          int got = m.find_halfface_in_cell(std::vector<VertexHandle>{VertexHandle(q[0]), VertexHandle(q[1]), VertexHandle(q[2])}, CellHandle(c)).idx();
          if (cand.empty() ? got >= 0 : std::find(cand.begin(), cand.end(), got) == cand.end()) {
            o << "find_halfface_in_cell(" << vec_str(q) << ", cell " << c << ") = " << got << ", halffaces of the cell with these vertices consecutively: " << vec_str(cand);
            return o.str();
          }
          (cand.empty() ? cx.negative : cx.positive)++;
        }
    }
  }
  return "";
}

}  // namespace vf
