// Independent reference implementation of the OVMB container format, written from
// extra/ovmb-kaitai/ovmb.ksy and documentation/subpages/binary_file_format.docu only.
// No library code is used. Provides a strict decoder (classifying why a file is invalid)
// and an encoder that can produce every encoding variant the description permits.
#pragma once
#include <cstdint>
#include <cstring>
#include <string>
#include <vector>

namespace ovmbref {

using Bytes = std::vector<uint8_t>;

struct RefProp {
  uint8_t entity = 0;            // 0 vertex 1 edge 2 face 3 cell 4 halfedge 5 halfface 6 mesh
  std::string name, type_name;
  Bytes def;                     // serialized default
  std::vector<Bytes> elems;      // per element: canonical encoding (bool: one byte 0/1)
  bool known_type = true;
  bool operator==(const RefProp &o) const { return entity == o.entity && name == o.name && type_name == o.type_name && def == o.def && elems == o.elems; }
};

struct RefMesh {
  uint8_t file_version = 1, vertex_dim = 3, topo_type = 0;
  uint64_t nv = 0;
  bool has_positions = true;
  std::vector<double> pos;                      // nv * dim
  std::vector<std::pair<uint32_t, uint32_t>> edges;
  std::vector<std::vector<uint32_t>> faces;     // halfedge handles
  std::vector<std::vector<uint32_t>> cells;     // halfface handles
  std::vector<RefProp> props;
};

// ---- little endian primitives ---------------------------------------------------
struct W {
  Bytes b;
  void u8(uint8_t v) { b.push_back(v); }
  void u16(uint16_t v) { u8(v & 0xff); u8(v >> 8); }
  void u32(uint32_t v) { for (int i = 0; i < 4; ++i) u8((v >> (8 * i)) & 0xff); }
  void u64(uint64_t v) { for (int i = 0; i < 8; ++i) u8((v >> (8 * i)) & 0xff); }
  void f64(double d) { uint64_t t; memcpy(&t, &d, 8); u64(t); }
  void f32(float f) { uint32_t t; memcpy(&t, &f, 4); u32(t); }
  void raw(const Bytes &x) { b.insert(b.end(), x.begin(), x.end()); }
  void str(const std::string &s) { b.insert(b.end(), s.begin(), s.end()); }
  void intenc(int enc, uint32_t v) { if (enc == 1) u8((uint8_t)v); else if (enc == 2) u16((uint16_t)v); else u32(v); }
  void zeros(size_t n) { b.insert(b.end(), n, 0); }
};
struct R {
  const uint8_t *p, *e;
  bool ok = true;
  R(const uint8_t *a, size_t n) : p(a), e(a + n) {}
  size_t left() const { return (size_t)(e - p); }
  bool need(size_t n) { if (left() < n) { ok = false; return false; } return true; }
  uint8_t u8() { if (!need(1)) return 0; return *p++; }
  uint16_t u16() { if (!need(2)) return 0; uint16_t v = (uint16_t)(p[0] | (p[1] << 8)); p += 2; return v; }
  uint32_t u32() { if (!need(4)) return 0; uint32_t v = 0; for (int i = 0; i < 4; ++i) v |= (uint32_t)p[i] << (8 * i); p += 4; return v; }
  uint64_t u64() { if (!need(8)) return 0; uint64_t v = 0; for (int i = 0; i < 8; ++i) v |= (uint64_t)p[i] << (8 * i); p += 8; return v; }
  uint32_t intenc(int enc) { return enc == 1 ? u8() : enc == 2 ? u16() : u32(); }
  Bytes take(size_t n) { if (!need(n)) return {}; Bytes r(p, p + n); p += n; return r; }
};

inline int enc_size(int enc) { return enc == 1 ? 1 : enc == 2 ? 2 : enc == 4 ? 4 : 0; }
inline int min_enc(uint64_t maxval) { return maxval <= 0xff ? 1 : maxval <= 0xffff ? 2 : 4; }

// fixed element size of the registered property types; -1 = string (u32 length prefix), -2 = bool (bit packed), 0 = unknown
inline int type_elem_size(const std::string &t) {
  if (t == "b") return -2;
  if (t == "s32") return -1;
  if (t == "u8" || t == "i8") return 1;
  if (t == "u16" || t == "i16") return 2;
  if (t == "u32" || t == "i32" || t == "f" || t == "vh" || t == "eh" || t == "heh" || t == "fh" || t == "hfh" || t == "ch") return 4;
  if (t == "u64" || t == "i64" || t == "d") return 8;
  if (t.size() >= 2 && (t[0] == '2' || t[0] == '3' || t[0] == '4')) {
    int n = t[0] - '0';
    std::string s = t.substr(1);
    if (s == "d") return 8 * n;
    if (s == "f" || s == "u32" || s == "i32") return 4 * n;
  }
  return 0;
}

// ---- decoder ---------------------------------------------------------------------
enum class Verdict { Ok, Invalid, Unjudged };
struct DecodeResult {
  Verdict verdict = Verdict::Ok;
  std::string reason;   // category: magic, header_version, reserved, padding, chunk_length, span, encoding, handle_range, structure, truncated, ...
  RefMesh mesh;
};

inline DecodeResult ref_decode(const Bytes &file) {
  DecodeResult res;
  auto bad = [&](const char *why) { res.verdict = Verdict::Invalid; res.reason = why; return res; };
  auto unj = [&](const char *why) { res.verdict = Verdict::Unjudged; res.reason = why; return res; };
  R r(file.data(), file.size());
  static const uint8_t magic[8] = {'O', 'V', 'M', 'B', 0x0a, 0x0d, 0x0a, 0xff};
  if (r.left() < 48) return bad("truncated");
  if (memcmp(r.p, magic, 8) != 0) return bad("magic");
  r.p += 8;
  RefMesh &m = res.mesh;
  m.file_version = r.u8();
  uint8_t header_version = r.u8();
  if (header_version != 1) return bad("header_version");
  m.vertex_dim = r.u8();
  m.topo_type = r.u8();
  if (m.topo_type > 2) return bad("encoding");
  for (int i = 0; i < 4; ++i) if (r.u8() != 0) return bad("reserved");
  m.nv = r.u64();
  uint64_t ne = r.u64(), nf = r.u64(), nc = r.u64();
  if (m.file_version != 1) return unj("file_version");
  if (m.nv > 0x7fffffffull || ne > 0x7fffffffull || nf > 0x7fffffffull || nc > 0x7fffffffull) return unj("count_too_large");
  // never allocate from a declared count: everything grows with the bytes actually present
  uint64_t vread = 0;
  bool have_dirp = false, eof_seen = false;
  std::vector<uint64_t> prop_filled;
  m.has_positions = false;
  while (r.left() > 0) {
    if (eof_seen) return bad("structure");          // data after the EOF chunk
    if (r.left() < 16) return bad("truncated");
    uint8_t type[4];
    for (auto &c : type) c = r.u8();
    uint8_t version = r.u8(), padding = r.u8(), compression = r.u8(), flags = r.u8();
    uint64_t file_length = r.u64();
    if (flags > 1) return bad("encoding");
    if (padding > file_length) return bad("chunk_length");
    if (file_length > r.left()) return bad("chunk_length");
    if (compression != 0) return unj("compression");
    const uint8_t *body = r.p;
    size_t payload = (size_t)(file_length - padding);
    r.p += file_length;
    for (size_t i = 0; i < padding; ++i) if (body[payload + i] != 0) return bad("padding");
    std::string t((const char *)type, 4);
    bool mandatory = flags & 1;
    if (version != 0) { if (mandatory) return unj("chunk_version"); continue; }
    R c(body, payload);
    if (t == "EOF ") {
      if (payload != 0) return bad("chunk_length");
      eof_seen = true;
    } else if (t == "VERT") {
      if (c.left() < 16) return bad("chunk_length");
      uint64_t first = c.u64(); uint32_t count = c.u32(); uint8_t enc = c.u8();
      for (int i = 0; i < 3; ++i) if (c.u8() != 0) return bad("reserved");
      if (enc > 2) return bad("encoding");
      if (first != vread || m.nv - vread < count) return bad("span");
      size_t es = enc == 1 ? 4 : enc == 2 ? 8 : 0;
      if (c.left() != (uint64_t)count * es * m.vertex_dim) return bad("chunk_length");
      if (enc == 0 && count > 0) return unj("vertex_encoding_none");
      for (uint64_t i = 0; i < (uint64_t)count * m.vertex_dim; ++i) {
        if (enc == 1) { uint32_t x = c.u32(); float f; memcpy(&f, &x, 4); m.pos.push_back((double)f); }
        else { uint64_t x = c.u64(); double d; memcpy(&d, &x, 8); m.pos.push_back(d); }
      }
      vread += count;
      m.has_positions = true;
    } else if (t == "TOPO") {
      if (c.left() < 24) return bad("chunk_length");
      uint64_t first = c.u64(); uint32_t count = c.u32();
      uint8_t entity = c.u8(), valence = c.u8(), venc = c.u8(), henc = c.u8();
      uint64_t off = c.u64();
      if (entity < 1 || entity > 3) return bad("encoding");
      if (!(venc == 0 || venc == 1 || venc == 2 || venc == 4) || !(henc == 0 || henc == 1 || henc == 2 || henc == 4)) return bad("encoding");
      if (count == 0) return bad("span");
      if (valence != 0 && venc != 0) return bad("encoding");
      if (valence == 0 && venc == 0) return bad("encoding");
      if (henc == 0) return bad("encoding");
      std::vector<uint32_t> vals;
      uint64_t total = 0;
      if (valence == 0) {
        if (c.left() < (uint64_t)count * enc_size(venc)) return bad("chunk_length");
        for (uint32_t i = 0; i < count; ++i) { vals.push_back(c.intenc(venc)); total += vals.back(); }
      } else total = (uint64_t)valence * count;
      if (c.left() != total * enc_size(henc)) return bad("chunk_length");
      uint64_t have = entity == 1 ? m.edges.size() : entity == 2 ? m.faces.size() : m.cells.size();
      uint64_t tot = entity == 1 ? ne : entity == 2 ? nf : nc;
      if (first != have || tot - have < count) return bad("span");
      if (entity == 1 && valence != 2) return bad("encoding");
      if (m.topo_type == 1 && ((entity == 2 && valence != 3) || (entity == 3 && valence != 4))) return bad("topo_type");
      if (m.topo_type == 2 && ((entity == 2 && valence != 4) || (entity == 3 && valence != 6))) return bad("topo_type");
      uint64_t limit = entity == 1 ? vread : entity == 2 ? 2 * (uint64_t)m.edges.size() : 2 * (uint64_t)m.faces.size();
      // sub-entities referenced by this chunk must already have been read (limit is evaluated before the chunk)
      for (uint32_t i = 0; i < count; ++i) {
        uint32_t k = valence ? valence : vals[i];
        std::vector<uint32_t> hs;
        for (uint32_t j = 0; j < k; ++j) {
          uint64_t h = (uint64_t)c.intenc(henc) + off;
          if (h >= limit) return bad("handle_range");
          hs.push_back((uint32_t)h);
        }
        if (entity == 1) m.edges.emplace_back(hs[0], hs[1]);
        else if (entity == 2) m.faces.push_back(hs);
        else m.cells.push_back(hs);
      }
    } else if (t == "DIRP") {
      if (have_dirp) return bad("structure");
      have_dirp = true;
      while (c.left() > 0) {
        RefProp p;
        if (c.left() < 13) return bad("chunk_length");
        p.entity = c.u8();
        if (p.entity > 6) return bad("encoding");
        uint32_t l = c.u32(); if (c.left() < l) return bad("chunk_length"); { Bytes x = c.take(l); p.name.assign(x.begin(), x.end()); }
        if (c.left() < 4) return bad("chunk_length");
        l = c.u32(); if (c.left() < l) return bad("chunk_length"); { Bytes x = c.take(l); p.type_name.assign(x.begin(), x.end()); }
        if (c.left() < 4) return bad("chunk_length");
        l = c.u32(); if (c.left() < l) return bad("chunk_length"); p.def = c.take(l);
        int es = type_elem_size(p.type_name);
        p.known_type = es != 0;
        // a default blob that is too short for its type is inconsistent; one with trailing bytes is not judged
        if (es > 0 && p.def.size() < (size_t)es) return bad("chunk_length");
        if (es > 0 && p.def.size() > (size_t)es) return unj("default_blob_trailing_bytes");
        if (es == -2 && p.def.size() < 1) return bad("chunk_length");
        if (es == -2 && p.def[0] > 1) return bad("encoding");
        if (es == -2 && p.def.size() > 1) return unj("default_blob_trailing_bytes");
        if (es == -1) {
          if (p.def.size() < 4) return bad("chunk_length");
          R d(p.def.data(), p.def.size());
          uint32_t sl = d.u32();
          if (d.left() < sl) return bad("chunk_length");
          if (d.left() > sl) return unj("default_blob_trailing_bytes");
        }
        m.props.push_back(p);
        prop_filled.push_back(0);
      }
    } else if (t == "PROP") {
      if (c.left() < 16) return bad("chunk_length");
      uint64_t first = c.u64(); uint32_t count = c.u32(); uint32_t idx = c.u32();
      if (idx >= m.props.size()) return bad("structure");
      RefProp &p = m.props[idx];
      if (!p.known_type) continue;
      uint64_t n = p.entity == 0 ? vread : p.entity == 1 ? m.edges.size() : p.entity == 2 ? m.faces.size() : p.entity == 3 ? m.cells.size()
                   : p.entity == 4 ? 2 * (uint64_t)m.edges.size() : p.entity == 5 ? 2 * (uint64_t)m.faces.size() : 1;
      if (count == 0) { if (c.left() != 0) return bad("chunk_length"); continue; }
      if (first >= n || n - first < count) return bad("span");
      if (first != p.elems.size()) return unj("prop_span_not_contiguous");
      int es = type_elem_size(p.type_name);
      if (es > 0) {
        if (c.left() != (uint64_t)count * (uint64_t)es) return bad("chunk_length");
        for (uint32_t i = 0; i < count; ++i) p.elems.push_back(c.take((size_t)es));
      } else if (es == -2) {
        if (c.left() != ((uint64_t)count + 7) / 8) return bad("chunk_length");
        for (uint32_t i = 0; i < count; i += 8) {
          uint8_t byte = c.u8();
          for (uint32_t b = 0; b < 8 && i + b < count; ++b) p.elems.push_back(Bytes{(uint8_t)((byte >> b) & 1)});
        }
      } else {
        for (uint32_t i = 0; i < count; ++i) {
          if (c.left() < 4) return bad("chunk_length");
          uint32_t sl = c.u32();
          if (c.left() < sl) return bad("chunk_length");
          W w; w.u32(sl); w.raw(c.take(sl));
          p.elems.push_back(w.b);
        }
        if (c.left() != 0) return bad("chunk_length");
      }
    } else {
      if (mandatory) return unj("unknown_mandatory_chunk");
    }
  }
  if (!eof_seen) return bad("truncated");
  if (vread != m.nv && m.has_positions) return bad("structure");
  if (m.edges.size() != ne || m.faces.size() != nf || m.cells.size() != nc) return bad("structure");
  return res;
}

// ---- encoder with variants --------------------------------------------------------
struct EncodeOptions {
  int vert_spans = 1, edge_spans = 1, face_spans = 1, cell_spans = 1, prop_spans = 1;
  bool wide_ints = false;        // use a wider int encoding than necessary
  bool float_vertices = false;
  bool handle_offsets = false;   // non-zero handle_offset = minimum handle of the chunk
  bool force_variable_valence = false;
  bool optional_chunks = false;  // unknown, non-mandatory four-cc chunks between the others
  bool props_interleaved = false;  // PROP chunks as soon as their entities are complete
  bool odd_padding = false;      // more padding than needed (still zeros)
};

inline void put_chunk(W &out, const char *type, const Bytes &payload, bool mandatory, int extra_pad = 0) {
  size_t padded = (payload.size() + 7) & ~(size_t)7;
  size_t pad = padded - payload.size() + (size_t)extra_pad * 8;
  if (pad > 255) pad = padded - payload.size();
  out.str(std::string(type, 4));
  out.u8(0); out.u8((uint8_t)pad); out.u8(0); out.u8(mandatory ? 1 : 0);
  out.u64(payload.size() + pad);
  out.raw(payload);
  out.zeros(pad);
}

inline std::vector<std::pair<uint64_t, uint32_t>> split_spans(uint64_t n, int parts) {
  std::vector<std::pair<uint64_t, uint32_t>> r;
  if (n == 0) return r;
  if (parts < 1) parts = 1;
  uint64_t base = 0;
  for (int i = 0; i < parts && base < n; ++i) {
    uint64_t cnt = (i == parts - 1) ? n - base : std::max<uint64_t>(1, (n - base) / (uint64_t)(parts - i));
    r.emplace_back(base, (uint32_t)cnt);
    base += cnt;
  }
  return r;
}

inline Bytes ref_encode(const RefMesh &m, const EncodeOptions &o) {
  W out;
  static const uint8_t magic[8] = {'O', 'V', 'M', 'B', 0x0a, 0x0d, 0x0a, 0xff};
  for (auto c : magic) out.u8(c);
  out.u8(m.file_version); out.u8(1); out.u8(m.vertex_dim); out.u8(m.topo_type); out.zeros(4);
  out.u64(m.nv); out.u64(m.edges.size()); out.u64(m.faces.size()); out.u64(m.cells.size());
  int optn = 0;
  auto optional = [&]() {
    if (!o.optional_chunks) return;
    Bytes p;
    for (int i = 0; i < 5 + optn * 3; ++i) p.push_back((uint8_t)(0xa0 + i));
    static const char *names[] = {"XTRA", "cmnt", "zzzz"};
    put_chunk(out, names[optn % 3], p, false);
    ++optn;
  };
  // property directory
  if (!m.props.empty()) {
    W d;
    for (auto &p : m.props) {
      d.u8(p.entity);
      d.u32((uint32_t)p.name.size()); d.str(p.name);
      d.u32((uint32_t)p.type_name.size()); d.str(p.type_name);
      d.u32((uint32_t)p.def.size()); d.raw(p.def);
    }
    put_chunk(out, "DIRP", d.b, true);
  }
  optional();
  auto write_prop = [&](size_t idx) {
    const RefProp &p = m.props[idx];
    int es = type_elem_size(p.type_name);
    auto spans = split_spans(p.elems.size(), o.prop_spans);
    if (es == -2 && spans.size() > 1) {  // bool chunks are bit packed per chunk: any split is fine
    }
    if (spans.empty()) spans.emplace_back(0, 0);
    for (auto sp : spans) {
      W c;
      c.u64(sp.first); c.u32(sp.second); c.u32((uint32_t)idx);
      if (es == -2) {
        for (uint32_t i = 0; i < sp.second; i += 8) {
          uint8_t byte = 0;
          for (uint32_t b = 0; b < 8 && i + b < sp.second; ++b) byte |= (uint8_t)(p.elems[sp.first + i + b][0] << b);
          c.u8(byte);
        }
      } else
        for (uint32_t i = 0; i < sp.second; ++i) c.raw(p.elems[sp.first + i]);
      put_chunk(out, "PROP", c.b, true, o.odd_padding ? 1 : 0);
    }
  };
  std::vector<char> prop_done(m.props.size(), 0);
  auto props_for = [&](std::initializer_list<int> ents) {
    if (!o.props_interleaved) return;
    for (size_t i = 0; i < m.props.size(); ++i)
      for (int e : ents) if (m.props[i].entity == e && !prop_done[i]) { write_prop(i); prop_done[i] = 1; }
  };
  // vertices
  if (m.has_positions)
    for (auto sp : split_spans(m.nv, o.vert_spans)) {
      W c;
      c.u64(sp.first); c.u32(sp.second); c.u8(o.float_vertices ? 1 : 2); c.zeros(3);
      for (uint64_t i = sp.first * m.vertex_dim; i < (sp.first + sp.second) * m.vertex_dim; ++i) {
        if (o.float_vertices) c.f32((float)m.pos[i]); else c.f64(m.pos[i]);
      }
      put_chunk(out, "VERT", c.b, true);
      optional();
    }
  props_for({0, 6});
  auto topo = [&](int entity, uint64_t n, int parts, uint64_t maxhandle, auto valence_of, auto handles_of) {
    for (auto sp : split_spans(n, parts)) {
      W c;
      uint32_t vmin = 0xffffffffu, vmax = 0;
      uint64_t hmin = ~0ull;
      for (uint64_t i = sp.first; i < sp.first + sp.second; ++i) {
        uint32_t v = valence_of(i);
        vmin = std::min(vmin, v); vmax = std::max(vmax, v);
        for (uint32_t h : handles_of(i)) hmin = std::min<uint64_t>(hmin, h);
      }
      if (hmin == ~0ull) hmin = 0;
      bool fixed = vmin == vmax && vmax <= 255 && vmax > 0 && !(o.force_variable_valence && entity != 1);
      uint64_t off = o.handle_offsets ? hmin : 0;
      int henc = min_enc(maxhandle - std::min<uint64_t>(off, maxhandle));
      int venc = min_enc(vmax);
      if (o.wide_ints) { henc = henc == 1 ? 2 : 4; venc = venc == 1 ? 2 : 4; }
      c.u64(sp.first); c.u32(sp.second); c.u8((uint8_t)entity); c.u8(fixed ? (uint8_t)vmax : 0); c.u8(fixed ? 0 : (uint8_t)venc); c.u8((uint8_t)henc);
      c.u64(off);
      if (!fixed) for (uint64_t i = sp.first; i < sp.first + sp.second; ++i) c.intenc(venc, valence_of(i));
      for (uint64_t i = sp.first; i < sp.first + sp.second; ++i) for (uint32_t h : handles_of(i)) c.intenc(henc, (uint32_t)(h - off));
      put_chunk(out, "TOPO", c.b, true, o.odd_padding ? 1 : 0);
      optional();
    }
  };
  topo(1, m.edges.size(), o.edge_spans, m.nv ? m.nv - 1 : 0, [&](uint64_t) { return 2u; },
       [&](uint64_t i) { return std::vector<uint32_t>{m.edges[i].first, m.edges[i].second}; });
  props_for({1, 4});
  topo(2, m.faces.size(), o.face_spans, m.edges.empty() ? 0 : 2 * m.edges.size() - 1, [&](uint64_t i) { return (uint32_t)m.faces[i].size(); },
       [&](uint64_t i) { return m.faces[i]; });
  props_for({2, 5});
  topo(3, m.cells.size(), o.cell_spans, m.faces.empty() ? 0 : 2 * m.faces.size() - 1, [&](uint64_t i) { return (uint32_t)m.cells[i].size(); },
       [&](uint64_t i) { return m.cells[i]; });
  props_for({3});
  for (size_t i = 0; i < m.props.size(); ++i) if (!prop_done[i]) write_prop(i);
  optional();
  put_chunk(out, "EOF ", {}, true);
  return out.b;
}

}  // namespace ovmbref
