#include "ascii_shim.hh"
#include <OpenVolumeMesh/FileManager/FileManager.hh>
#include <sstream>
namespace ascii_shim {
bool read_tet(const std::string &data, bool topo_check, bool bottom_up, OpenVolumeMesh::GeometricTetrahedralMeshV3d &m) {
  std::istringstream ss(data);
  OpenVolumeMesh::IO::FileManager fm;
  fm.setVerbosityLevel(0);
  return fm.readStream(ss, m, topo_check, bottom_up);
}
bool write_tet(const OpenVolumeMesh::GeometricTetrahedralMeshV3d &m, std::string &out) {
  std::ostringstream ss;
  OpenVolumeMesh::IO::FileManager fm;
  fm.setVerbosityLevel(0);
  fm.writeStream(ss, m);
  out = ss.str();
  return ss.good();
}
bool write_tet_file(const OpenVolumeMesh::GeometricTetrahedralMeshV3d &m, const std::string &path) { OpenVolumeMesh::IO::FileManager fm; fm.setVerbosityLevel(0); return fm.writeFile(path, m); }
bool read_tet_file(const std::string &path, bool topo_check, bool bottom_up, OpenVolumeMesh::GeometricTetrahedralMeshV3d &m) { OpenVolumeMesh::IO::FileManager fm; fm.setVerbosityLevel(0); return fm.readFile(path, m, topo_check, bottom_up); }
}  // namespace ascii_shim
