// Shared by the libFuzzer reader targets (C07): post-condition "success means a valid mesh",
// coverage-independent counters, stats dump.
#pragma once
#include "common.hh"
#include "oracle_c01.hh"
#include <OpenVolumeMesh/Core/TopologyKernel.hh>
#include <cstdio>
#include <unordered_set>

namespace fz {
using namespace OpenVolumeMesh;

struct Counters {
  uint64_t execs = 0, skipped_huge = 0, passed_header = 0, reached_topo = 0, reached_prop = 0, success = 0, failure = 0, exceptions = 0, structured = 0;
  std::unordered_set<uint64_t> nontrivial;
  std::string sample_ok, sample_rej;
};
inline Counters &C() { static Counters c; return c; }

inline void dump_stats() {
  const char *p = getenv("VF_FUZZ_STATS");
  if (!p) return;
  std::string tmp = std::string(p) + ".tmp";
  FILE *f = fopen(tmp.c_str(), "w");
  if (!f) return;
  Counters &c = C();
  fprintf(f, "{\"execs\": %llu, \"skipped_declared_count_over_1e5\": %llu, \"passed_header\": %llu, \"reached_topology\": %llu, \"reached_properties\": %llu, "
             "\"returned_success\": %llu, \"returned_failure\": %llu, \"std_exceptions\": %llu, \"structure_aware_inputs\": %llu, \"distinct_nontrivial\": %llu, "
             "\"sample_success\": \"%s\", \"sample_rejected\": \"%s\"}\n",
          (unsigned long long)c.execs, (unsigned long long)c.skipped_huge, (unsigned long long)c.passed_header, (unsigned long long)c.reached_topo,
          (unsigned long long)c.reached_prop, (unsigned long long)c.success, (unsigned long long)c.failure, (unsigned long long)c.exceptions,
          (unsigned long long)c.structured, (unsigned long long)c.nontrivial.size(), vf::json_escape(c.sample_ok).c_str(), vf::json_escape(c.sample_rej).c_str());
  fclose(f);
  rename(tmp.c_str(), p);
}
inline void tick() {
  Counters &c = C();
  static bool reg = false;
  if (!reg) { reg = true; atexit(dump_stats); }
  if (++c.execs % 1000 == 0) dump_stats();
}
inline std::string hexhead(const uint8_t *d, size_t n, size_t max = 96) {
  static const char *hx = "0123456789abcdef";
  std::string s;
  for (size_t i = 0; i < n && i < max; ++i) { s += hx[d[i] >> 4]; s += hx[d[i] & 15]; }
  if (n > max) s += "...";
  return s;
}
[[noreturn]] inline void violation(const char *what) {
  fprintf(stderr, "C07-POSTCONDITION-VIOLATED: %s\n", what);
  dump_stats();
  __builtin_trap();
}

template <class Tag, class M> void check_props_of(const M &m) {
  for (auto it = m.template persistent_props_begin<Tag>(); it != m.template persistent_props_end<Tag>(); ++it)
    if ((*it)->size() != m.template n<Tag>()) violation("a property of the mesh read successfully does not have one element per entity");
}

// success means: every stored handle designates an existing entity, every property has one element per entity,
// and the mesh can be traversed (bottom-up incidences rebuilt, all upward queries and iterators) sanitizer-clean
template <class M> void validate_success(M &m) {
  const size_t nv = m.n_vertices(), ne = m.n_edges(), nf = m.n_faces();
  for (size_t e = 0; e < ne; ++e) {
    const auto &ed = m.edge(EdgeHandle((int)e));
    if (!ed.from_vertex().is_valid() || !ed.to_vertex().is_valid() || ed.from_vertex().uidx() >= nv || ed.to_vertex().uidx() >= nv) violation("edge refers to a vertex that does not exist");
  }
  for (size_t f = 0; f < nf; ++f)
    for (auto he : m.face(FaceHandle((int)f)).halfedges()) if (!he.is_valid() || he.uidx() >= 2 * ne) violation("face refers to a halfedge that does not exist");
  for (size_t c = 0; c < m.n_cells(); ++c)
    for (auto hf : m.cell(CellHandle((int)c)).halffaces()) if (!hf.is_valid() || hf.uidx() >= 2 * nf) violation("cell refers to a halfface that does not exist");
  check_props_of<Entity::Vertex>(m); check_props_of<Entity::Edge>(m); check_props_of<Entity::HalfEdge>(m); check_props_of<Entity::Face>(m);
  check_props_of<Entity::HalfFace>(m); check_props_of<Entity::Cell>(m); check_props_of<Entity::Mesh>(m);
  if (m.vertex_positions().size() != nv) violation("positions do not have one element per vertex");
  m.enable_bottom_up_incidences(true);
  if (nv + ne + nf + m.n_cells() <= 400) {
    vf::C01Counters cc;
    (void)vf::c01_check(m, cc);  // exercised for memory safety; its verdict belongs to C01
  }
  size_t k = 0;
  for (auto v : m.vertices()) k += (size_t)v.idx();
  for (auto h : m.halfedges()) k += (size_t)h.idx();
  for (auto h : m.halffaces()) k += (size_t)h.idx();
  for (auto c : m.cells()) for (auto v : m.cell_vertices(c)) k += (size_t)v.idx();
  for (auto f : m.faces()) if (m.valence(f) > 0) for (auto v : m.face_vertices(f)) k += (size_t)v.idx();
  if (k == (size_t)-1) fprintf(stderr, "%zu", k);
}

}  // namespace fz
