// Interpreter of mesh-history programs over the polyhedral kernel.
// Every program is valid by construction: arguments are interpreted relative to
// the current logical state (uid-addressed), ops whose precondition cannot be
// met are skipped and counted.
#pragma once
#include "common.hh"
#include "model.hh"
#include <OpenVolumeMesh/Mesh/PolyhedralMesh.hh>
#include <OpenVolumeMesh/Attribs/StatusAttrib.hh>
#include <functional>
#include <map>
#include <memory>
#include <sstream>

namespace vf {
using namespace OpenVolumeMesh;
using Vec3d = Geometry::Vec3d;

struct PolyMesh : public GeometricPolyhedralMeshV3d {
  using TopologyKernel::incident_cell_per_hf_;
  using TopologyKernel::incident_hfs_per_he_;
  using TopologyKernel::outgoing_hes_per_vertex_;
};

enum PrimType {
  P_ADD_VERTEX, P_ADD_N_VERTICES, P_ADD_EDGE, P_ADD_FACE_V, P_ADD_FACE_HE, P_ADD_CELL,
  P_SET_EDGE, P_SET_FACE, P_SET_CELL, P_DELETE, P_SWAP, P_GC, P_CLEAR, P_RESERVE,
  P_EN_VBU, P_EN_EBU, P_EN_FBU, P_EN_DEFERRED, P_EN_FAST, P_STATUS_MARK, P_STATUS_GC
};

struct Prim {
  PrimType t;
  int kind = -1;
  int u = -1, u2 = -1;
  std::vector<int> vs;
  std::vector<HEu> hes;
  std::vector<HFu> hfs;
  bool flag = false;
  int n = 0;
  // expectations, computed against the logical model before execution
  bool expect_reject = false;                     // ADD_FACE_HE / ADD_CELL with topology check on invalid input
  int expect_existing = -1;                       // ADD_EDGE
  std::vector<std::pair<int, bool>> facev_edges;  // ADD_FACE_V: (edge uid, is_new)
  std::vector<int> closure_e, closure_f, closure_c;  // DELETE
  // STATUS_GC: victims per kind (uids), handles passed for tracking (uid -1 = invalid handle)
  std::vector<int> victims[4];
  std::vector<int> tr_v, tr_c;
  std::vector<HEu> tr_he;
  std::vector<HFu> tr_hf;
  std::string render;
};

inline Vec3d pos_of_uid(int v) { return Vec3d(1.0 + v, (double)((v * 7) % 5) + 0.25, (double)((v * 3) % 11) - 2.0); }

struct Sut {
  PolyMesh mesh;
  Layout lay;
  bool deferred = true, fast = true, vbu = true, ebu = true, fbu = true;
  bool follow_bu = true;  // false: twin that keeps all bottom-up incidences enabled (C12)
  std::string name = "mesh";
  std::unique_ptr<StatusAttrib> status;
  std::vector<VertexHandle> res_v;     // tracked handles after StatusAttrib::garbage_collection
  std::vector<HalfEdgeHandle> res_he;
  std::vector<HalfFaceHandle> res_hf;
  std::vector<CellHandle> res_c;
  StatusAttrib &st() { if (!status) status.reset(new StatusAttrib(mesh)); return *status; }
  VertexHandle vh(int uid) const { return VertexHandle(lay.slot(KV, uid)); }
  EdgeHandle eh(int uid) const { return EdgeHandle(lay.slot(KE, uid)); }
  FaceHandle fh(int uid) const { return FaceHandle(lay.slot(KF, uid)); }
  CellHandle ch(int uid) const { return CellHandle(lay.slot(KC, uid)); }
  HalfEdgeHandle heh(HEu h) const { return HalfEdgeHandle(2 * lay.slot(KE, h.e) + h.s); }
  HalfFaceHandle hfh(HFu h) const { return HalfFaceHandle(2 * lay.slot(KF, h.f) + h.s); }
};

// opcodes of the program vocabulary --------------------------------------
enum OpCode {
  O_ADD_VERTEX, O_ADD_N_VERTICES, O_ADD_EDGE, O_ADD_FACE_V, O_ADD_FACE_HE, O_ADD_CELL_TPL, O_ADD_CONE,
  O_SET_EDGE, O_SET_FACE, O_SET_CELL,
  O_DEL_V, O_DEL_E, O_DEL_F, O_DEL_C,
  O_SWAP_V, O_SWAP_E, O_SWAP_F, O_SWAP_C,
  O_GC, O_CLEAR, O_EN_VBU, O_EN_EBU, O_EN_FBU, O_EN_DEFERRED, O_EN_FAST,
  O_PROP_CREATE, O_PROP_WRITE, O_PROP_DROP, O_QUERY, O_STATUS_MARK, O_STATUS_GC,
  O_ADD_RING, O_TRY_FACE, O_TRY_CELL, O_RESERVE,
  O_COUNT_
};

inline const std::vector<OpInfo> &poly_optable() {
  static const std::vector<OpInfo> t = {
      {"add_vertex", 1}, {"add_n_vertices", 1}, {"add_edge", 4}, {"add_face_v", 4}, {"add_face_he", 5},
      {"add_cell_tpl", 5}, {"add_cone", 4},
      {"set_edge", 3}, {"set_face", 4}, {"set_cell", 3},
      {"delete_vertex", 1}, {"delete_edge", 1}, {"delete_face", 1}, {"delete_cell", 1},
      {"swap_vertices", 2}, {"swap_edges", 2}, {"swap_faces", 2}, {"swap_cells", 2},
      {"collect_garbage", 0}, {"clear", 1}, {"enable_vbu", 1}, {"enable_ebu", 1}, {"enable_fbu", 1},
      {"enable_deferred", 1}, {"enable_fast", 1},
      {"prop_create", 4}, {"prop_write", 3}, {"prop_drop", 1}, {"query", 5},
      {"status_mark_deleted", 2}, {"status_garbage_collection", 5},
      {"add_ring", 5}, {"try_add_face", 5}, {"try_add_cell", 5}, {"reserve", 2}};
  return t;
}

struct Template {
  int nv;
  std::vector<std::vector<int>> faces;
};
inline const std::vector<Template> &templates() {
  static const std::vector<Template> t = {
      {4, {{1, 2, 3}, {0, 3, 2}, {0, 1, 3}, {0, 2, 1}}},                                            // tet
      {5, {{0, 1, 2, 3}, {1, 0, 4}, {2, 1, 4}, {3, 2, 4}, {0, 3, 4}}},                              // pyramid
      {6, {{0, 1, 2}, {5, 4, 3}, {1, 0, 3, 4}, {2, 1, 4, 5}, {0, 2, 5, 3}}},                        // prism
      {8, {{0, 1, 2, 3}, {7, 6, 5, 4}, {1, 0, 4, 5}, {2, 1, 5, 6}, {3, 2, 6, 7}, {0, 3, 7, 4}}},    // hex
      {3, {{0, 1, 2}, {0, 2, 1}}},                                                                  // pillow
      {5, {{3, 0, 1}, {3, 1, 2}, {3, 2, 0}, {4, 1, 0}, {4, 2, 1}, {4, 0, 2}}},                      // 3-bipyramid
  };
  return t;
}

struct Interp {
  Logical L;
  std::vector<std::unique_ptr<Sut>> suts;
  std::map<int, Vec3d> pos;  // expected position per live vertex uid
  std::set<int> marks[4];    // status-marked (deleted) live entities per kind
  std::vector<char> checked_face;  // per face uid: built from a vertex list or accepted with topology check, not modified since
  Stats *st = nullptr;
  bool allow_set = true;       // set_edge/set_face/set_cell allowed in this target
  bool allow_membrane = false; // add_cone may build a double cone stored as ONE cell that contains both halffaces of its base
  bool allow_selfloop = true;
  bool dedup_safe = true;      // skip add_edge(dedupe) when several parallel live edges exist
  size_t max_vertices = 40;

  // when a twin mesh (suts[0], all bottom-up incidences enabled) runs alongside, failures that only the
  // second mesh shows are attributed to this property (C12)
  std::string twin_owner;
  // first failure
  std::string fail, fail_owner;
  std::string cur_annot;

  // called after every primitive (after structure verification); return false to stop
  std::function<bool(const Prim &)> on_step;
  // called right before a primitive is executed
  std::function<void(const Prim &)> before_step;
  // structural mismatch reporting: owner property by primitive type
  std::string owner_for(const Sut &s, const std::string &owner) const {
    if (!twin_owner.empty() && suts.size() > 1 && &s != suts[0].get()) return twin_owner;
    return owner;
  }
  static const char *owner_of(const Prim &p) {
    if (p.t == P_EN_DEFERRED && !p.flag) return "C04";
    return owner_of(p.t);
  }
  static const char *owner_of(PrimType t) {
    switch (t) {
    case P_ADD_VERTEX: case P_ADD_N_VERTICES: case P_ADD_EDGE: case P_ADD_FACE_V: case P_ADD_FACE_HE: case P_ADD_CELL:
      return "C11";
    case P_SWAP: return "C17";
    case P_GC: case P_STATUS_GC: return "C04";
    default: return "C02";
    }
  }

  Sut &add_sut(const std::string &name, bool follow_bu = true) {
    suts.emplace_back(new Sut());
    suts.back()->name = name;
    suts.back()->follow_bu = follow_bu;
    return *suts.back();
  }
  void count(const std::string &k) { if (st) st->count(k); }
  void set_fail(const std::string &owner, const std::string &msg) {
    if (fail.empty()) { fail = msg; fail_owner = owner; }
  }

  // ---- selection helpers -------------------------------------------------
  int pick(int kind, int a) const {
    auto l = L.live(kind);
    if (l.empty()) return -1;
    return l[(size_t)a % l.size()];
  }
  std::vector<int> pick_vertices(int k, int start, int step, bool distinct) const {
    auto l = L.live(KV);
    std::vector<int> r;
    if (l.empty()) return r;
    size_t n = l.size();
    size_t stp = 1 + (size_t)step % std::max<size_t>(1, n - 1);
    for (int j = 0; j < k; ++j) {
      int v = l[((size_t)start + (size_t)j * stp) % n];
      if (distinct && std::find(r.begin(), r.end(), v) != r.end()) continue;
      r.push_back(v);
    }
    return r;
  }

  // ---- execution of one primitive ---------------------------------------
  bool step(Prim p) {
    if (!fail.empty()) return false;
    if (before_step) before_step(p);
    if (!cur_annot.empty()) cur_annot += "; ";
    cur_annot += p.render;
    for (auto &s : suts) exec_on(*s, p);
    apply_logical(p);
    for (auto &s : suts) post_exec(*s, p);
    if (!fail.empty()) return false;
    for (auto &s : suts) {
      std::string m = verify(*s);
      if (!m.empty()) {
        std::string own = owner_of(p);
        // is_deleted flags, logical counts and needs_garbage_collection are C02's observables ("always describe
        // exactly the surviving set", also across clear() and additions): a fresh entity that is born flagged is
        // not a construction (C11) defect
        if (own == "C11" && (m.find("is_deleted(") != std::string::npos || m.find("logical counts") != std::string::npos || m.find("needs_garbage_collection()") != std::string::npos)) own = "C02";
        set_fail(owner_for(*s, own), "[" + s->name + "] after " + p.render + ": " + m);
        return false;
      }
    }
    if (on_step && !on_step(p)) return false;
    return fail.empty();
  }

  void expect_handle(Sut &s, const Prim &p, int got, int exp, const char *what) {
    if (got != exp) {
      std::ostringstream o;
      o << "[" << s.name << "] " << p.render << ": " << what << " returned handle " << got << ", expected " << exp;
      set_fail(owner_for(s, "C11"), o.str());
    }
  }

  void remove_many(Sut &s, int kind, std::vector<int> uids) {
    std::vector<int> slots;
    for (int u : uids) slots.push_back(s.lay.slot(kind, u));
    std::sort(slots.rbegin(), slots.rend());
    if (s.deferred) return;
    for (int sl : slots) s.lay.remove_slot(kind, sl, s.fast);
  }
  void gc_layout(Sut &s, const Logical &Lnow) {
    for (int kind = KC; kind >= KV; --kind)
      for (int i = (int)s.lay.uid_at[kind].size() - 1; i >= 0; --i)
        if (!Lnow.alive(kind, s.lay.uid_at[kind][(size_t)i])) s.lay.remove_slot(kind, i, s.fast);
  }
  bool has_pending(const Sut &s) const {
    for (int kind = 0; kind < 4; ++kind)
      for (int u : s.lay.uid_at[kind]) if (!L.alive(kind, u)) return true;
    return false;
  }

  void exec_on(Sut &s, const Prim &p) {
    PolyMesh &m = s.mesh;
    switch (p.t) {
    case P_ADD_VERTEX: {
      int exp = (int)m.n_vertices();
      VertexHandle h = p.flag ? m.add_vertex(pos_of_uid(p.u)) : m.TopologyKernel::add_vertex();
      expect_handle(s, p, h.idx(), exp, "add_vertex");
      s.lay.push(KV, p.u);
      break;
    }
    case P_ADD_N_VERTICES: {
      m.add_n_vertices((size_t)p.n);
      for (int i = 0; i < p.n; ++i) s.lay.push(KV, p.u + i);
      break;
    }
    case P_ADD_EDGE: {
      int nbefore = (int)m.n_edges();
      EdgeHandle h = m.add_edge(s.vh(p.vs[0]), s.vh(p.vs[1]), p.flag);
      if (p.expect_existing >= 0) expect_handle(s, p, h.idx(), s.lay.slot(KE, p.expect_existing), "add_edge(existing)");
      else { expect_handle(s, p, h.idx(), nbefore, "add_edge(new)"); s.lay.push(KE, p.u); }
      break;
    }
    case P_ADD_FACE_V: {
      std::vector<VertexHandle> vhs;
      for (int v : p.vs) vhs.push_back(s.vh(v));
      int nbefore = (int)m.n_faces();
      FaceHandle h = m.add_face(vhs);
      for (auto &pr : p.facev_edges) if (pr.second) s.lay.push(KE, pr.first);
      expect_handle(s, p, h.idx(), nbefore, "add_face(vertices)");
      s.lay.push(KF, p.u);
      break;
    }
    case P_ADD_FACE_HE: {
      std::vector<HalfEdgeHandle> hs;
      for (auto h : p.hes) hs.push_back(s.heh(h));
      int nbefore = (int)m.n_faces();
      FaceHandle h = m.add_face(hs, p.flag);
      if (p.expect_reject) { expect_handle(s, p, h.idx(), -1, "add_face(halfedges, check) on an invalid loop"); break; }
      expect_handle(s, p, h.idx(), nbefore, "add_face(halfedges)");
      s.lay.push(KF, p.u);
      break;
    }
    case P_ADD_CELL: {
      std::vector<HalfFaceHandle> hs;
      for (auto h : p.hfs) hs.push_back(s.hfh(h));
      int nbefore = (int)m.n_cells();
      CellHandle h = m.add_cell(hs, p.flag);
      if (p.expect_reject) { expect_handle(s, p, h.idx(), -1, "add_cell(halffaces, check) on an invalid surface"); break; }
      expect_handle(s, p, h.idx(), nbefore, "add_cell");
      s.lay.push(KC, p.u);
      break;
    }
    case P_SET_EDGE: m.set_edge(s.eh(p.u), s.vh(p.vs[0]), s.vh(p.vs[1])); break;
    case P_SET_FACE: {
      std::vector<HalfEdgeHandle> hs;
      for (auto h : p.hes) hs.push_back(s.heh(h));
      m.set_face(s.fh(p.u), hs);
      break;
    }
    case P_SET_CELL: {
      std::vector<HalfFaceHandle> hs;
      for (auto h : p.hfs) hs.push_back(s.hfh(h));
      m.set_cell(s.ch(p.u), hs);
      break;
    }
    case P_DELETE: {
      switch (p.kind) {
      case KV: m.delete_vertex(s.vh(p.u)); break;
      case KE: m.delete_edge(s.eh(p.u)); break;
      case KF: m.delete_face(s.fh(p.u)); break;
      default: m.delete_cell(s.ch(p.u)); break;
      }
      auto cs = p.closure_c, fs = p.closure_f, es = p.closure_e;
      if (p.kind == KC) cs.push_back(p.u);
      if (p.kind == KF) fs.push_back(p.u);
      if (p.kind == KE) es.push_back(p.u);
      remove_many(s, KC, cs);
      remove_many(s, KF, fs);
      remove_many(s, KE, es);
      if (p.kind == KV) remove_many(s, KV, {p.u});
      break;
    }
    case P_SWAP: {
      int s1 = s.lay.slot(p.kind, p.u), s2 = s.lay.slot(p.kind, p.u2);
      switch (p.kind) {
      case KV: m.swap_vertex_indices(VertexHandle(s1), VertexHandle(s2)); break;
      case KE: m.swap_edge_indices(EdgeHandle(s1), EdgeHandle(s2)); break;
      case KF: m.swap_face_indices(FaceHandle(s1), FaceHandle(s2)); break;
      default: m.swap_cell_indices(CellHandle(s1), CellHandle(s2)); break;
      }
      std::swap(s.lay.uid_at[p.kind][(size_t)s1], s.lay.uid_at[p.kind][(size_t)s2]);
      s.lay.reindex(p.kind);
      break;
    }
    case P_GC:
      m.collect_garbage();
      if (s.deferred) gc_layout(s, L);
      break;
    case P_CLEAR:
      m.clear(p.flag);
      s.lay.clear();
      break;
    case P_RESERVE:  // capacity only: nothing observable may change
      switch (p.kind) {
      case KV: m.reserve_vertices((size_t)p.n); break;
      case KE: m.reserve_edges((size_t)p.n); break;
      case KF: m.reserve_faces((size_t)p.n); break;
      default: m.reserve_cells((size_t)p.n); break;
      }
      break;
    case P_EN_VBU: if (s.follow_bu) { m.enable_vertex_bottom_up_incidences(p.flag); s.vbu = p.flag; } break;
    case P_EN_EBU: if (s.follow_bu) { m.enable_edge_bottom_up_incidences(p.flag); s.ebu = p.flag; } break;
    case P_EN_FBU: if (s.follow_bu) { m.enable_face_bottom_up_incidences(p.flag); s.fbu = p.flag; } break;
    case P_EN_DEFERRED:
      m.enable_deferred_deletion(p.flag);
      if (s.deferred && !p.flag) gc_layout(s, L);
      s.deferred = p.flag;
      break;
    case P_EN_FAST: m.enable_fast_deletion(p.flag); s.fast = p.flag; break;
    case P_STATUS_MARK: {
      StatusAttrib &sa = s.st();
      switch (p.kind) {
      case KV: sa[s.vh(p.u)].set_deleted(true); break;
      case KE: sa[s.eh(p.u)].set_deleted(true); break;
      case KF: sa[s.fh(p.u)].set_deleted(true); break;
      default: sa[s.ch(p.u)].set_deleted(true); break;
      }
      break;
    }
    case P_STATUS_GC: {
      StatusAttrib &sa = s.st();
      s.res_v.clear(); s.res_he.clear(); s.res_hf.clear(); s.res_c.clear();
      for (int u : p.tr_v) s.res_v.push_back(u < 0 ? VertexHandle(-1) : s.vh(u));
      for (auto h : p.tr_he) s.res_he.push_back(h.e < 0 ? HalfEdgeHandle(-1) : s.heh(h));
      for (auto h : p.tr_hf) s.res_hf.push_back(h.f < 0 ? HalfFaceHandle(-1) : s.hfh(h));
      for (int u : p.tr_c) s.res_c.push_back(u < 0 ? CellHandle(-1) : s.ch(u));
      if (p.n == 0) sa.garbage_collection(p.flag);
      else {
        std::vector<VertexHandle *> pv;
        std::vector<HalfEdgeHandle *> phe;
        std::vector<HalfFaceHandle *> phf;
        std::vector<CellHandle *> pc;
        for (auto &h : s.res_v) pv.push_back(&h);
        for (auto &h : s.res_he) phe.push_back(&h);
        for (auto &h : s.res_hf) phf.push_back(&h);
        for (auto &h : s.res_c) pc.push_back(&h);
        sa.garbage_collection(pv, phe, phf, pc, p.flag);
      }
      break;
    }
    }
  }

  // layout / expectation updates that need the logical state *after* the primitive
  void post_exec(Sut &s, const Prim &p) {
    if (p.t != P_STATUS_GC) return;
    gc_layout(s, L);
    if (p.flag) { s.vbu = s.ebu = s.fbu = true; }
    if (p.n == 0) return;
    auto chk = [&](const char *what, size_t i, int got, int exp) {
      if (got != exp) {
        std::ostringstream o;
        o << "[" << s.name << "] " << p.render << ": tracked " << what << " #" << i << " is " << got << " afterwards, expected " << exp
          << (exp < 0 ? " (entity removed)" : "");
        set_fail(owner_for(s, "C04"), o.str());
      }
    };
    for (size_t i = 0; i < p.tr_v.size(); ++i) {
      int u = p.tr_v[i];
      chk("vertex handle", i, s.res_v[i].idx(), (u < 0 || !L.alive(KV, u)) ? -1 : s.lay.slot(KV, u));
    }
    for (size_t i = 0; i < p.tr_he.size(); ++i) {
      auto h = p.tr_he[i];
      chk("halfedge handle", i, s.res_he[i].idx(), (h.e < 0 || !L.alive(KE, h.e)) ? -1 : 2 * s.lay.slot(KE, h.e) + h.s);
    }
    for (size_t i = 0; i < p.tr_hf.size(); ++i) {
      auto h = p.tr_hf[i];
      chk("halfface handle", i, s.res_hf[i].idx(), (h.f < 0 || !L.alive(KF, h.f)) ? -1 : 2 * s.lay.slot(KF, h.f) + h.s);
    }
    for (size_t i = 0; i < p.tr_c.size(); ++i) {
      int u = p.tr_c[i];
      chk("cell handle", i, s.res_c[i].idx(), (u < 0 || !L.alive(KC, u)) ? -1 : s.lay.slot(KC, u));
    }
  }

  void apply_logical(const Prim &p) {
    switch (p.t) {
    case P_ADD_VERTEX:
      L.V.push_back(1);
      pos[p.u] = p.flag ? pos_of_uid(p.u) : Vec3d(0.0, 0.0, 0.0);
      break;
    case P_ADD_N_VERTICES:
      for (int i = 0; i < p.n; ++i) { L.V.push_back(1); pos[p.u + i] = Vec3d(0.0, 0.0, 0.0); }
      break;
    case P_ADD_EDGE:
      if (p.expect_existing < 0) L.E.push_back({p.vs[0], p.vs[1], true});
      break;
    case P_ADD_FACE_V: {
      for (size_t i = 0; i < p.facev_edges.size(); ++i)
        if (p.facev_edges[i].second) L.E.push_back({p.vs[i], p.vs[(i + 1) % p.vs.size()], true});
      L.F.push_back({p.hes, true});
      checked_face.push_back(true);
      break;
    }
    case P_ADD_FACE_HE: if (!p.expect_reject) { L.F.push_back({p.hes, true}); checked_face.push_back(p.flag); } break;
    case P_ADD_CELL: if (!p.expect_reject) L.C.push_back({p.hfs, true}); break;
    case P_SET_EDGE:
      L.E[(size_t)p.u].from = p.vs[0]; L.E[(size_t)p.u].to = p.vs[1];
      for (size_t f = 0; f < L.F.size(); ++f) if (L.face_has_edge((int)f, p.u)) checked_face[f] = false;
      break;
    case P_SET_FACE: L.F[(size_t)p.u].hes = p.hes; checked_face[(size_t)p.u] = false; break;
    case P_SET_CELL: L.C[(size_t)p.u].hfs = p.hfs; break;
    case P_DELETE:
      for (int c : p.closure_c) L.C[(size_t)c].alive = false;
      for (int f : p.closure_f) L.F[(size_t)f].alive = false;
      for (int e : p.closure_e) L.E[(size_t)e].alive = false;
      if (p.kind == KV) { L.V[(size_t)p.u] = 0; pos.erase(p.u); }
      if (p.kind == KE) L.E[(size_t)p.u].alive = false;
      if (p.kind == KF) L.F[(size_t)p.u].alive = false;
      if (p.kind == KC) L.C[(size_t)p.u].alive = false;
      break;
    case P_CLEAR: L.clear(); pos.clear(); checked_face.clear(); for (auto &m : marks) m.clear(); break;
    case P_STATUS_MARK: marks[p.kind].insert(p.u); break;
    case P_STATUS_GC:
      for (int c : p.victims[KC]) L.C[(size_t)c].alive = false;
      for (int f : p.victims[KF]) L.F[(size_t)f].alive = false;
      for (int e : p.victims[KE]) L.E[(size_t)e].alive = false;
      for (int v : p.victims[KV]) { L.V[(size_t)v] = 0; pos.erase(v); }
      for (auto &m : marks) m.clear();
      break;
    default: break;
    }
    // marks on entities that died otherwise are meaningless
    for (int k = 0; k < 4; ++k)
      for (auto it = marks[k].begin(); it != marks[k].end();) it = L.alive(k, *it) ? std::next(it) : marks[k].erase(it);
  }

  // victims of StatusAttrib::garbage_collection: closure of all marks, then (optionally) everything bounding no cell
  void status_gc_victims(bool manifold, std::vector<int> (&vict)[4]) const {
    Logical T = L;
    auto kill = [&](int kind, int u) {
      std::vector<int> es, fs, cs;
      T.closure(kind, u, es, fs, cs);
      for (int c : cs) T.C[(size_t)c].alive = false;
      for (int f : fs) T.F[(size_t)f].alive = false;
      for (int e : es) T.E[(size_t)e].alive = false;
      if (kind == KV) T.V[(size_t)u] = 0;
      if (kind == KE) T.E[(size_t)u].alive = false;
      if (kind == KF) T.F[(size_t)u].alive = false;
      if (kind == KC) T.C[(size_t)u].alive = false;
    };
    for (int k = 0; k < 4; ++k)
      for (int u : marks[k]) if (T.alive(k, u)) kill(k, u);
    if (manifold) {
      for (size_t f = 0; f < T.F.size(); ++f)
        if (T.F[f].alive && T.hf_free(HFu{(int)f, 0}) && T.hf_free(HFu{(int)f, 1})) kill(KF, (int)f);
      for (size_t e = 0; e < T.E.size(); ++e) {
        if (!T.E[e].alive) continue;
        bool used = false;
        for (size_t f = 0; f < T.F.size() && !used; ++f) used = T.F[f].alive && T.face_has_edge((int)f, (int)e);
        if (!used) kill(KE, (int)e);
      }
      for (size_t v = 0; v < T.V.size(); ++v) {
        if (!T.V[v]) continue;
        bool used = false;
        for (size_t e = 0; e < T.E.size() && !used; ++e) used = T.E[e].alive && T.edge_has_vertex((int)e, (int)v);
        if (!used) kill(KV, (int)v);
      }
    }
    for (int k = 0; k < 4; ++k) {
      vict[k].clear();
      for (size_t u = 0; u < L.count(k); ++u) if (L.alive(k, (int)u) && !T.alive(k, (int)u)) vict[k].push_back((int)u);
    }
  }

  // ---- structural conformance of one mesh with the logical model ---------
  std::string verify(Sut &s) const {
    const PolyMesh &m = s.mesh;
    std::ostringstream o;
    const Layout &lay = s.lay;
    size_t nv = lay.uid_at[KV].size(), ne = lay.uid_at[KE].size(), nf = lay.uid_at[KF].size(), nc = lay.uid_at[KC].size();
    if (m.n_vertices() != nv || m.n_edges() != ne || m.n_faces() != nf || m.n_cells() != nc ||
        m.n_halfedges() != 2 * ne || m.n_halffaces() != 2 * nf) {
      o << "entity counts V/E/F/C = " << m.n_vertices() << "/" << m.n_edges() << "/" << m.n_faces() << "/" << m.n_cells()
        << " (halfedges " << m.n_halfedges() << ", halffaces " << m.n_halffaces() << "), expected " << nv << "/" << ne << "/" << nf << "/" << nc;
      return o.str();
    }
    size_t live[4] = {0, 0, 0, 0};
    bool pending = false;
    for (int k = 0; k < 4; ++k)
      for (int u : lay.uid_at[k]) { if (L.alive(k, u)) ++live[k]; else pending = true; }
    if (m.n_logical_vertices() != live[KV] || m.n_logical_edges() != live[KE] || m.n_logical_faces() != live[KF] ||
        m.n_logical_cells() != live[KC] || m.n_logical_halfedges() != 2 * live[KE] || m.n_logical_halffaces() != 2 * live[KF]) {
      o << "logical counts V/E/F/C = " << m.n_logical_vertices() << "/" << m.n_logical_edges() << "/" << m.n_logical_faces() << "/"
        << m.n_logical_cells() << ", expected " << live[KV] << "/" << live[KE] << "/" << live[KF] << "/" << live[KC];
      return o.str();
    }
    if (m.needs_garbage_collection() != pending) {
      o << "needs_garbage_collection() = " << m.needs_garbage_collection() << ", expected " << pending;
      return o.str();
    }
    {
      int g = 1 - ((int)live[KV] - (int)live[KE] + (int)live[KF] - (int)live[KC]);
      int exp = (g % 2 == 0) ? g / 2 : -1;
      if (m.genus() != exp) { o << "genus() = " << m.genus() << ", expected " << exp; return o.str(); }
    }
    if (m.deferred_deletion_enabled() != s.deferred || m.fast_deletion_enabled() != s.fast ||
        m.has_vertex_bottom_up_incidences() != s.vbu || m.has_edge_bottom_up_incidences() != s.ebu ||
        m.has_face_bottom_up_incidences() != s.fbu) {
      o << "mode flags (deferred,fast,vbu,ebu,fbu) differ from the requested ones";
      return o.str();
    }
    for (size_t i = 0; i < nv; ++i) {
      bool al = L.alive(KV, lay.uid_at[KV][i]);
      if (m.is_deleted(VertexHandle((int)i)) == al) { o << "is_deleted(VH " << i << ") = " << !al << " wrong (vertex uid " << lay.uid_at[KV][i] << ")"; return o.str(); }
    }
    for (size_t i = 0; i < ne; ++i) {
      int u = lay.uid_at[KE][i];
      bool al = L.alive(KE, u);
      if (m.is_deleted(EdgeHandle((int)i)) == al || m.is_deleted(HalfEdgeHandle(2 * (int)i)) == al || m.is_deleted(HalfEdgeHandle(2 * (int)i + 1)) == al) {
        o << "is_deleted(EH " << i << ") wrong, expected " << !al << " (edge uid " << u << ")"; return o.str(); }
      if (!al) continue;
      const auto &e = m.edge(EdgeHandle((int)i));
      int ef = lay.slot(KV, L.E[(size_t)u].from), et = lay.slot(KV, L.E[(size_t)u].to);
      if (e.from_vertex().idx() != ef || e.to_vertex().idx() != et) {
        o << "edge " << i << " (uid " << u << ") is (" << e.from_vertex().idx() << "," << e.to_vertex().idx() << "), expected (" << ef << "," << et << ")";
        return o.str();
      }
    }
    for (size_t i = 0; i < nf; ++i) {
      int u = lay.uid_at[KF][i];
      bool al = L.alive(KF, u);
      if (m.is_deleted(FaceHandle((int)i)) == al || m.is_deleted(HalfFaceHandle(2 * (int)i)) == al || m.is_deleted(HalfFaceHandle(2 * (int)i + 1)) == al) {
        o << "is_deleted(FH " << i << ") wrong, expected " << !al << " (face uid " << u << ")"; return o.str(); }
      if (!al) continue;
      std::vector<int> got, exp;
      for (auto h : m.face(FaceHandle((int)i)).halfedges()) got.push_back(h.idx());
      for (auto h : L.F[(size_t)u].hes) exp.push_back(2 * lay.slot(KE, h.e) + h.s);
      if (got != exp) { o << "face " << i << " (uid " << u << ") halfedges " << vs(got) << ", expected " << vs(exp); return o.str(); }
    }
    for (size_t i = 0; i < nc; ++i) {
      int u = lay.uid_at[KC][i];
      bool al = L.alive(KC, u);
      if (m.is_deleted(CellHandle((int)i)) == al) { o << "is_deleted(CH " << i << ") wrong, expected " << !al << " (cell uid " << u << ")"; return o.str(); }
      if (!al) continue;
      std::vector<int> got, exp;
      for (auto h : m.cell(CellHandle((int)i)).halffaces()) got.push_back(h.idx());
      for (auto h : L.C[(size_t)u].hfs) exp.push_back(2 * lay.slot(KF, h.f) + h.s);
      if (got != exp) { o << "cell " << i << " (uid " << u << ") halffaces " << vs(got) << ", expected " << vs(exp); return o.str(); }
    }
    return "";
  }
  static std::string vs(const std::vector<int> &v) {
    std::ostringstream o;
    o << "[";
    for (size_t i = 0; i < v.size(); ++i) o << (i ? "," : "") << v[i];
    o << "]";
    return o.str();
  }

  // ---- primitive builders -------------------------------------------------
  static std::string rv(const char *name, std::initializer_list<int> a) {
    std::ostringstream o;
    o << name << "(";
    bool f = true;
    for (int x : a) { o << (f ? "" : ",") << x; f = false; }
    o << ")";
    return o.str();
  }
  bool prim_add_vertex(bool with_pos) {
    if (L.n_live(KV) >= max_vertices) { count("skip:max_vertices"); return true; }
    Prim p; p.t = P_ADD_VERTEX; p.u = (int)L.V.size(); p.flag = with_pos;
    p.render = rv(with_pos ? "add_vertex(p)->v" : "add_vertex()->v", {p.u});
    return step(p);
  }
  // returns uid of the edge (existing or created) through `out`
  bool prim_add_edge(int a, int b, bool allowDup, int &out) {
    auto ex = L.live_edges_between(a, b);
    Prim p; p.t = P_ADD_EDGE; p.vs = {a, b}; p.flag = allowDup;
    if (!allowDup && !ex.empty()) {
      if (ex.size() > 1 && dedup_safe) { count("skip:dedupe_ambiguous"); out = -1; return true; }
      p.expect_existing = ex[0]; out = ex[0];
      p.render = rv("add_edge[v,v,dedupe->e]", {a, b, out});
    } else {
      p.u = (int)L.E.size(); out = p.u;
      p.render = rv(allowDup ? "add_edge[v,v,dup->e]" : "add_edge[v,v,new->e]", {a, b, out});
    }
    return step(p);
  }
  static bool closed_loop(const Logical &L, const std::vector<HEu> &hes) {
    if (hes.empty()) return false;
    for (size_t i = 0; i < hes.size(); ++i)
      if (L.he_to(hes[i]) != L.he_from(hes[(i + 1) % hes.size()])) return false;
    return true;
  }
  bool prim_add_face_he(const std::vector<HEu> &hes, bool check, int &out) {
    Prim p; p.t = P_ADD_FACE_HE; p.hes = hes; p.flag = check; p.u = (int)L.F.size(); out = p.u;
    std::ostringstream o;
    o << "add_face[he";
    for (auto h : hes) o << " e" << h.e << (h.s ? "'" : "");
    o << (check ? ",check" : "") << "]->f" << p.u;
    p.render = o.str();
    return step(p);
  }
  // add_face(vertices): replicates the library's edge lookup order in the model
  bool prim_add_face_v(const std::vector<int> &vsl, int &out) {
    out = -1;
    Prim p; p.t = P_ADD_FACE_V; p.vs = vsl; p.u = (int)L.F.size();
    Logical T = L;  // scratch copy to resolve edges created within the call
    size_t k = vsl.size();
    for (size_t i = 0; i < k; ++i) {
      int a = vsl[i], b = vsl[(i + 1) % k];
      auto ex = T.live_edges_between(a, b);
      int e;
      bool isnew = false;
      if (ex.size() > 1 && dedup_safe) { count("skip:dedupe_ambiguous"); return true; }
      if (!ex.empty()) e = ex[0];
      else { e = (int)T.E.size(); T.E.push_back({a, b, true}); isnew = true; }
      int side = (T.E[(size_t)e].to == a) ? 1 : 0;
      p.hes.push_back(HEu{e, side});
      p.facev_edges.emplace_back(e, isnew);
    }
    std::ostringstream o;
    o << "add_face[v";
    for (int v : vsl) o << " " << v;
    o << "]->f" << p.u;
    p.render = o.str();
    out = p.u;
    return step(p);
  }
  bool prim_add_cell(const std::vector<HFu> &hfs, bool check, int &out) {
    Prim p; p.t = P_ADD_CELL; p.hfs = hfs; p.flag = check; p.u = (int)L.C.size(); out = p.u;
    std::ostringstream o;
    o << "add_cell[";
    for (auto h : hfs) o << " f" << h.f << (h.s ? "'" : "");
    o << (check ? ",check" : "") << "]->c" << p.u;
    p.render = o.str();
    return step(p);
  }
  bool prim_delete(int kind, int uid) {
    Prim p; p.t = P_DELETE; p.kind = kind; p.u = uid;
    L.closure(kind, uid, p.closure_e, p.closure_f, p.closure_c);
    static const char *nm[] = {"delete_vertex", "delete_edge", "delete_face", "delete_cell"};
    static const char *pf[] = {"v", "e", "f", "c"};
    std::ostringstream o;
    o << nm[kind] << "(" << pf[kind] << uid << ") closure e" << vs(p.closure_e) << " f" << vs(p.closure_f) << " c" << vs(p.closure_c);
    p.render = o.str();
    return step(p);
  }
  bool prim_simple(PrimType t, bool flag, const char *name) {
    Prim p; p.t = t; p.flag = flag;
    p.render = std::string(name) + "(" + (flag ? "true" : "false") + ")";
    return step(p);
  }

  // find a free live halfface whose halfedge cycle is a rotation of `cyc`
  bool find_free_halfface(const std::vector<HEu> &cyc, HFu &out) const {
    size_t k = cyc.size();
    for (size_t f = 0; f < L.F.size(); ++f) {
      if (!L.F[f].alive || L.F[f].hes.size() != k) continue;
      for (int s = 0; s < 2; ++s) {
        HFu h{(int)f, s};
        auto c = L.hf_hes(h);
        for (size_t r = 0; r < k; ++r) {
          bool eq = true;
          for (size_t i = 0; i < k && eq; ++i) eq = (c[(i + r) % k] == cyc[i]);
          if (eq && L.hf_free(h)) { out = h; return true; }
        }
      }
    }
    return false;
  }
  // pick or create an edge between a and b; `sel` chooses among parallel edges / creation
  bool edge_for(int a, int b, int sel, bool may_dup, int &e) {
    auto ex = L.live_edges_between(a, b);
    if (!ex.empty() && !(may_dup && (sel % 7) == 6)) { e = ex[(size_t)sel % ex.size()]; return true; }
    if ((sel >> 1) & 1) std::swap(a, b);  // mixed edge orientations
    return prim_add_edge(a, b, /*allowDup*/ !ex.empty() || (sel & 1), e) && e >= 0;
  }
  HEu he_dir(int e, int from) const { return HEu{e, (L.E[(size_t)e].from == from) ? 0 : 1}; }

  // ---- one program op -------------------------------------------------------
  // returns false when execution must stop (failure recorded in `fail`)
  bool run_op(const Op &op) {
    cur_annot.clear();
    const int *a = op.a;
    switch (op.code) {
    case O_ADD_VERTEX: return prim_add_vertex((a[0] & 3) != 0);
    case O_ADD_N_VERTICES: {
      int n = 1 + a[0] % 3;
      if (L.n_live(KV) + (size_t)n > max_vertices) { count("skip:max_vertices"); return true; }
      Prim p; p.t = P_ADD_N_VERTICES; p.n = n; p.u = (int)L.V.size();
      p.render = rv("add_n_vertices", {n});
      return step(p);
    }
    case O_ADD_EDGE: {
      int va = pick(KV, a[0]), vb = pick(KV, a[1]);
      if (va < 0) { count("skip:no_vertex"); return true; }
      if (va == vb && !(allow_selfloop && a[3] % 4 == 0)) {
        vb = pick(KV, a[1] + 1);
        if (va == vb) { count("skip:no_second_vertex"); return true; }
      }
      int e;
      return prim_add_edge(va, vb, a[2] % 4 == 0, e);
    }
    case O_ADD_FACE_V: {
      int k = 2 + a[0] % 4;
      if (a[0] >= 208) k = 5 + a[0] % 4;  // occasionally faces of valence up to 8
      if (a[0] % 16 == 15 && allow_selfloop) k = 1;
      auto vsl = pick_vertices(k, a[1], a[2], a[3] % 8 != 0 || !allow_selfloop);
      if (vsl.empty()) { count("skip:no_vertex"); return true; }
      if (!allow_selfloop && vsl.size() < 2) { count("skip:degenerate"); return true; }
      int f;
      return prim_add_face_v(vsl, f);
    }
    case O_ADD_FACE_HE: {
      int k = 2 + a[0] % 4;
      auto vsl = pick_vertices(k, a[1], a[2], true);
      if (vsl.size() < 2) { count("skip:no_vertex"); return true; }
      std::vector<HEu> hes;
      for (size_t i = 0; i < vsl.size(); ++i) {
        int e, va = vsl[i], vb = vsl[(i + 1) % vsl.size()];
        if (!edge_for(va, vb, a[3] + (int)i, true, e)) return fail.empty();
        hes.push_back(he_dir(e, va));
        if (vsl.size() == 2 && i == 0 && a[3] % 3 == 0) { hes.push_back(HEu{e, hes[0].s ^ 1}); break; }  // 2-gon on one edge
      }
      int f;
      return prim_add_face_he(hes, a[4] & 1, f);
    }
    case O_ADD_CELL_TPL: return op_add_cell_tpl(a);
    case O_ADD_RING: return op_add_ring(a);
    case O_TRY_FACE: return op_try_face(a);
    case O_TRY_CELL: return op_try_cell(a);
    case O_ADD_CONE: return op_add_cone(a);
    case O_SET_EDGE: {
      if (!allow_set) return true;
      int e = pick(KE, a[0]), va = pick(KV, a[1]), vb = pick(KV, a[2]);
      if (e < 0 || va < 0) { count("skip:no_entity"); return true; }
      if (va == vb && !allow_selfloop) { count("skip:degenerate"); return true; }
      Prim p; p.t = P_SET_EDGE; p.u = e; p.vs = {va, vb};
      p.render = rv("set_edge[e,v,v]", {e, va, vb});
      return step(p);
    }
    case O_SET_FACE: {
      if (!allow_set) return true;
      int f = pick(KF, a[0]);
      if (f < 0) { count("skip:no_entity"); return true; }
      int k = 2 + a[1] % 3;
      auto vsl = pick_vertices(k, a[2], a[3], true);
      if (vsl.size() < 2) { count("skip:no_vertex"); return true; }
      std::vector<HEu> hes;
      for (size_t i = 0; i < vsl.size(); ++i) {
        auto ex = L.live_edges_between(vsl[i], vsl[(i + 1) % vsl.size()]);
        if (ex.empty()) { count("skip:set_face_no_edge"); return true; }
        hes.push_back(he_dir(ex[(size_t)a[1] % ex.size()], vsl[i]));
      }
      Prim p; p.t = P_SET_FACE; p.u = f; p.hes = hes;
      std::ostringstream o;
      o << "set_face[f" << f << ":";
      for (auto h : hes) o << " e" << h.e << (h.s ? "'" : "");
      o << "]";
      p.render = o.str();
      return step(p);
    }
    case O_SET_CELL: {
      if (!allow_set) return true;
      int c = pick(KC, a[0]);
      if (c < 0) { count("skip:no_entity"); return true; }
      auto hfs = L.C[(size_t)c].hfs;
      if (hfs.empty()) return true;
      std::rotate(hfs.begin(), hfs.begin() + (a[1] % (int)hfs.size()), hfs.end());
      if (a[2] % 3 == 0) {  // replace one halfface by a free one that is not in the cell
        std::vector<HFu> free;
        for (size_t f = 0; f < L.F.size(); ++f)
          if (L.F[f].alive)
            for (int s = 0; s < 2; ++s) {
              HFu h{(int)f, s};
              if (L.hf_free(h)) free.push_back(h);
            }
        if (!free.empty()) hfs[(size_t)a[2] % hfs.size()] = free[(size_t)a[1] % free.size()];
      } else if (a[2] % 3 == 1 && hfs.size() > 1) hfs.pop_back();
      Prim p; p.t = P_SET_CELL; p.u = c; p.hfs = hfs;
      std::ostringstream o;
      o << "set_cell[c" << c << ":";
      for (auto h : hfs) o << " f" << h.f << (h.s ? "'" : "");
      o << "]";
      p.render = o.str();
      return step(p);
    }
    case O_DEL_V: case O_DEL_E: case O_DEL_F: case O_DEL_C: {
      int kind = op.code - O_DEL_V;
      int u = pick(kind, a[0]);
      if (u < 0) { count("skip:no_entity"); return true; }
      return prim_delete(kind, u);
    }
    case O_SWAP_V: case O_SWAP_E: case O_SWAP_F: case O_SWAP_C: {
      int kind = op.code - O_SWAP_V;
      const auto &slots = suts[0]->lay.uid_at[kind];
      if (slots.empty()) { count("skip:no_entity"); return true; }
      Prim p; p.t = P_SWAP; p.kind = kind;
      p.u = slots[(size_t)a[0] % slots.size()];
      p.u2 = slots[(size_t)a[1] % slots.size()];
      static const char *nm[] = {"swap_vertex_indices[v,v]", "swap_edge_indices[e,e]", "swap_face_indices[f,f]", "swap_cell_indices[c,c]"};
      p.render = rv(nm[kind], {p.u, p.u2});
      if (!L.alive(kind, p.u) || !L.alive(kind, p.u2)) p.render += " (deleted slot involved)";
      return step(p);
    }
    case O_GC: { Prim p; p.t = P_GC; p.render = "collect_garbage()"; return step(p); }
    case O_CLEAR: return prim_simple(P_CLEAR, a[0] & 1, "clear");
    case O_RESERVE: {
      static const char *nm[] = {"reserve_vertices", "reserve_edges", "reserve_faces", "reserve_cells"};
      Prim p; p.t = P_RESERVE; p.kind = a[0] % 4; p.n = a[1] % 64;
      p.render = std::string(nm[p.kind]) + "(" + std::to_string(p.n) + ")";
      return step(p);
    }
    case O_EN_VBU: return prim_simple(P_EN_VBU, a[0] & 1, "enable_vertex_bottom_up_incidences");
    case O_EN_EBU: return prim_simple(P_EN_EBU, a[0] & 1, "enable_edge_bottom_up_incidences");
    case O_EN_FBU: return prim_simple(P_EN_FBU, a[0] & 1, "enable_face_bottom_up_incidences");
    case O_EN_DEFERRED: return prim_simple(P_EN_DEFERRED, a[0] & 1, "enable_deferred_deletion");
    case O_EN_FAST: return prim_simple(P_EN_FAST, a[0] & 1, "enable_fast_deletion");
    case O_STATUS_MARK: {
      int kind = a[0] % 4;
      int u = pick(kind, a[1]);
      if (u < 0) { count("skip:no_entity"); return true; }
      Prim p; p.t = P_STATUS_MARK; p.kind = kind; p.u = u;
      static const char *pf[] = {"v", "e", "f", "c"};
      p.render = std::string("status[") + pf[kind] + std::to_string(u) + "].set_deleted(true)";
      return step(p);
    }
    case O_STATUS_GC: {
      Prim p; p.t = P_STATUS_GC; p.flag = (a[0] % 3 == 0); p.n = (a[1] % 4 != 0) ? 1 : 0;
      status_gc_victims(p.flag, p.victims);
      std::ostringstream o;
      o << "StatusAttrib::garbage_collection(" << (p.n ? "track" : "") << (p.flag ? ",preserveManifoldness" : "") << ") victims v" << vs(p.victims[KV])
        << " e" << vs(p.victims[KE]) << " f" << vs(p.victims[KF]) << " c" << vs(p.victims[KC]);
      if (p.n) {
        // handles handed in for tracking: any slot (live or pending), sometimes the invalid handle
        const Layout &lay = suts[0]->lay;
        auto some = [&](int kind, int seed, int cnt) {
          std::vector<int> r;
          const auto &u = lay.uid_at[kind];
          for (int i = 0; i < cnt; ++i) {
            if ((seed + i) % 9 == 8 || u.empty()) r.push_back(-1);
            else r.push_back(u[(size_t)(seed * 7 + i * 13) % u.size()]);
          }
          return r;
        };
        p.tr_v = some(KV, a[2], 1 + a[2] % 4);
        p.tr_c = some(KC, a[3], a[3] % 4);
        for (int u : some(KE, a[4], a[4] % 4)) p.tr_he.push_back(HEu{u, (a[4] / 4) & 1});
        for (int u : some(KF, a[2] + a[3], (a[2] + a[3]) % 4)) p.tr_hf.push_back(HFu{u, (a[3] / 4) & 1});
        o << " track v" << vs(p.tr_v) << " c" << vs(p.tr_c) << " he[";
        for (auto h : p.tr_he) o << " e" << h.e << (h.s ? "'" : "");
        o << "] hf[";
        for (auto h : p.tr_hf) o << " f" << h.f << (h.s ? "'" : "");
        o << "]";
      }
      p.render = o.str();
      return step(p);
    }
    default: return true;  // handled by the target (property ops, queries)
    }
  }

  // acceptance predicate of add_cell(.., check): every halfedge of the halffaces occurs exactly once and so does its opposite
  static bool closed_surface(const Logical &L, const std::vector<HFu> &hfs) {
    if (hfs.empty()) return false;
    std::map<std::pair<int, int>, int> cnt;
    for (auto h : hfs) for (auto he : L.hf_hes(h)) cnt[{he.e, he.s}]++;
    for (auto &kv : cnt) {
      if (kv.second != 1) return false;
      auto it = cnt.find({kv.first.first, kv.first.second ^ 1});
      if (it == cnt.end() || it->second != 1) return false;
    }
    return true;
  }

  // C11: add_face(halfedges, check=true) on a perturbed loop
  bool op_try_face(const int *a) {
    std::vector<HEu> hes;
    auto lf = L.live(KF);
    if (!lf.empty() && a[0] % 4 != 0) hes = L.hf_hes(HFu{lf[(size_t)a[1] % lf.size()], a[1] / 64 & 1});
    else {
      auto vsl = pick_vertices(2 + a[1] % 3, a[2], a[3], true);
      for (size_t i = 0; i < vsl.size() && vsl.size() >= 2; ++i) {
        auto ex = L.live_edges_between(vsl[i], vsl[(i + 1) % vsl.size()]);
        if (ex.empty()) { hes.clear(); break; }
        hes.push_back(he_dir(ex[(size_t)a[4] % ex.size()], vsl[i]));
      }
    }
    auto le = L.live(KE);
    if (le.empty()) { count("skip:no_entity"); return true; }
    const char *what = "as is";
    switch (a[2] % 9) {
    case 0: hes.clear(); what = "empty"; break;
    case 1: if (!hes.empty()) { hes.erase(hes.begin() + a[3] % (int)hes.size()); what = "one dropped"; } break;
    case 2: if (!hes.empty()) { auto h = hes[(size_t)a[3] % hes.size()]; hes.insert(hes.begin() + a[4] % (int)hes.size(), h); what = "one doubled"; } break;
    case 3: if (!hes.empty()) { hes[(size_t)a[3] % hes.size()] = HEu{le[(size_t)a[4] % le.size()], a[4] / 128}; what = "one replaced"; } break;
    case 4: if (!hes.empty()) { hes[(size_t)a[3] % hes.size()].s ^= 1; what = "one reversed"; } break;
    case 5: if (!hes.empty()) { std::rotate(hes.begin(), hes.begin() + a[3] % (int)hes.size(), hes.end()); what = "rotated"; } break;
    case 6: { std::reverse(hes.begin(), hes.end()); for (auto &h : hes) h.s ^= 1; what = "opposite orientation"; break; }
    case 7: if (hes.size() > 2) { std::swap(hes[0], hes[1 + (size_t)a[3] % (hes.size() - 1)]); what = "two exchanged"; } break;
    default: break;
    }
    Prim p; p.t = P_ADD_FACE_HE; p.hes = hes; p.flag = true; p.u = (int)L.F.size();
    p.expect_reject = !closed_loop(L, hes);
    std::ostringstream o;
    o << "try add_face[he";
    for (auto h : hes) o << " e" << h.e << (h.s ? "'" : "");
    o << ",check] (" << what << ") expect " << (p.expect_reject ? "reject" : "accept->f" + std::to_string(p.u));
    p.render = o.str();
    count(p.expect_reject ? "try_face_expect_reject" : "try_face_expect_accept");
    return step(p);
  }

  // C11: add_cell(halffaces, check=true) on a perturbed closed surface made of free halffaces
  bool op_try_cell(const int *a) {
    // start from the halffaces of a template over existing vertices (creating missing faces), never adding the cell itself
    const auto &tpls = templates();
    const Template &T = tpls[(size_t)a[0] % 4];
    auto vsl = pick_vertices(T.nv, a[1], a[2], true);
    if ((int)vsl.size() < T.nv) { count("skip:no_vertex"); return true; }
    std::map<std::pair<int, int>, int> emap;
    for (auto &fc : T.faces)
      for (size_t i = 0; i < fc.size(); ++i) {
        int x = vsl[(size_t)fc[i]], y = vsl[(size_t)fc[(i + 1) % fc.size()]];
        auto key = std::make_pair(std::min(x, y), std::max(x, y));
        if (emap.count(key)) continue;
        int e;
        if (!edge_for(x, y, a[4] + (int)emap.size() * 3, false, e)) return fail.empty();
        emap[key] = e;
      }
    std::vector<HFu> hfs;
    for (auto &fc : T.faces) {
      std::vector<HEu> cyc;
      for (size_t i = 0; i < fc.size(); ++i) {
        int x = vsl[(size_t)fc[i]], y = vsl[(size_t)fc[(i + 1) % fc.size()]];
        cyc.push_back(he_dir(emap[std::make_pair(std::min(x, y), std::max(x, y))], x));
      }
      HFu h;
      if (find_free_halfface(cyc, h)) { hfs.push_back(h); continue; }
      int f;
      if (!prim_add_face_he(cyc, true, f)) return false;
      hfs.push_back(HFu{f, 0});
    }
    std::vector<HFu> free;
    for (size_t f = 0; f < L.F.size(); ++f)
      if (L.F[f].alive) for (int s = 0; s < 2; ++s) if (L.hf_free(HFu{(int)f, s})) free.push_back(HFu{(int)f, s});
    const char *what = "as is";
    switch (a[3] % 9) {
    case 0: hfs.clear(); what = "empty"; break;
    case 1: hfs.erase(hfs.begin() + a[4] % (int)hfs.size()); what = "one dropped"; break;
    case 2: hfs.push_back(hfs[(size_t)a[4] % hfs.size()]); what = "one doubled"; break;
    case 3: hfs[(size_t)a[4] % hfs.size()] = free[(size_t)(a[4] / 8) % free.size()]; what = "one replaced"; break;
    case 4: hfs[(size_t)a[4] % hfs.size()].s ^= 1; what = "one flipped"; break;
    case 5: std::rotate(hfs.begin(), hfs.begin() + a[4] % (int)hfs.size(), hfs.end()); what = "rotated"; break;
    case 6: for (auto &h : hfs) h.s ^= 1; what = "all flipped"; break;
    case 7: std::swap(hfs[0], hfs[1 + (size_t)a[4] % (hfs.size() - 1)]); what = "two exchanged"; break;
    default: break;
    }
    for (auto h : hfs) if (!L.hf_free(h)) { count("skip:try_cell_occupied"); return true; }
    Prim p; p.t = P_ADD_CELL; p.hfs = hfs; p.flag = true; p.u = (int)L.C.size();
    p.expect_reject = !closed_surface(L, hfs);
    std::ostringstream o;
    o << "try add_cell[";
    for (auto h : hfs) o << " f" << h.f << (h.s ? "'" : "");
    o << ",check] (" << what << ") expect " << (p.expect_reject ? "reject" : "accept->c" + std::to_string(p.u));
    p.render = o.str();
    count(p.expect_reject ? "try_cell_expect_reject" : "try_cell_expect_accept");
    return step(p);
  }

  // k tets around a common edge, inserted in a generated order; closed ring or open fan
  bool op_add_ring(const int *a) {
    int k = 3 + a[0] % 4;
    bool closed = (a[1] % 3) != 0;
    auto ab = pick_vertices(2, a[2], a[3], true);
    std::vector<int> vsl = ab;
    while (vsl.size() < 2 + (size_t)k + (closed ? 0 : 1)) {
      if (L.n_live(KV) >= max_vertices) { count("skip:max_vertices"); return true; }
      int before = (int)L.V.size();
      if (!prim_add_vertex(true)) return false;
      vsl.push_back(before);
    }
    int A = vsl[0], B = vsl[1];
    std::vector<int> ring(vsl.begin() + 2, vsl.end());
    int ntets = closed ? k : k;  // open fan: k tets over k+1 ring vertices
    std::vector<int> order((size_t)ntets);
    for (int i = 0; i < ntets; ++i) order[(size_t)i] = i;
    // generated insertion order: a multiplicative shuffle derived from the op arguments
    for (int i = ntets - 1; i > 0; --i) std::swap(order[(size_t)i], order[(size_t)((a[4] * 31 + i * 17 + a[0]) % (i + 1))]);
    for (int idx : order) {
      int r0 = ring[(size_t)idx], r1 = ring[(size_t)(idx + 1) % ring.size()];
      int tv[4] = {A, B, r0, r1};
      const Template &T = templates()[0];
      std::map<std::pair<int, int>, int> emap;
      for (auto &fc : T.faces)
        for (size_t i = 0; i < fc.size(); ++i) {
          int x = tv[fc[i]], y = tv[fc[(i + 1) % fc.size()]];
          auto key = std::make_pair(std::min(x, y), std::max(x, y));
          if (emap.count(key)) continue;
          int e;
          if (!edge_for(x, y, 0, false, e)) return fail.empty();
          emap[key] = e;
        }
      std::vector<HFu> hfs;
      for (auto &fc : T.faces) {
        std::vector<HEu> cyc;
        for (size_t i = 0; i < fc.size(); ++i) {
          int x = tv[fc[i]], y = tv[fc[(i + 1) % fc.size()]];
          cyc.push_back(he_dir(emap[std::make_pair(std::min(x, y), std::max(x, y))], x));
        }
        HFu h;
        if (find_free_halfface(cyc, h)) { hfs.push_back(h); continue; }
        int f;
        if (!prim_add_face_he(cyc, false, f)) return false;
        hfs.push_back(HFu{f, 0});
      }
      bool dup = false;
      for (size_t i = 0; i < hfs.size(); ++i) for (size_t j = i + 1; j < hfs.size(); ++j) if (hfs[i] == hfs[j]) dup = true;
      if (dup) { count("skip:ring_repeats_halfface"); continue; }
      int c;
      if (!prim_add_cell(hfs, a[1] & 1, c)) return false;
      count("cells_built");
    }
    count(closed ? "rings_closed" : "fans_open");
    return true;
  }

  bool op_add_cell_tpl(const int *a) {
    const auto &tpls = templates();
    const Template &T = tpls[(size_t)a[0] % tpls.size()];
    int nfresh = (a[3] % 4 == 0) ? 1 + (a[3] / 4) % 2 : 0;
    auto vsl = pick_vertices(T.nv - std::min(nfresh, T.nv), a[1], a[2], true);
    while ((int)vsl.size() < T.nv) {
      if (L.n_live(KV) >= max_vertices) { count("skip:max_vertices"); return true; }
      int before = (int)L.V.size();
      if (!prim_add_vertex(true)) return false;
      vsl.push_back(before);
    }
    bool check = a[4] & 1, force_new = (a[4] & 6) == 6;
    // edge map
    std::map<std::pair<int, int>, int> emap;
    int sel = a[4] / 8;
    for (auto &fc : T.faces)
      for (size_t i = 0; i < fc.size(); ++i) {
        int x = vsl[(size_t)fc[i]], y = vsl[(size_t)fc[(i + 1) % fc.size()]];
        auto key = std::make_pair(std::min(x, y), std::max(x, y));
        if (emap.count(key)) continue;
        int e;
        if (!edge_for(x, y, sel++, false, e)) return fail.empty();
        emap[key] = e;
      }
    std::vector<HFu> hfs;
    for (size_t fi = 0; fi < T.faces.size(); ++fi) {
      const auto &fc = T.faces[fi];
      std::vector<HEu> cyc;
      for (size_t i = 0; i < fc.size(); ++i) {
        int x = vsl[(size_t)fc[i]], y = vsl[(size_t)fc[(i + 1) % fc.size()]];
        cyc.push_back(he_dir(emap[std::make_pair(std::min(x, y), std::max(x, y))], x));
      }
      HFu h;
      if (!(force_new && fi == 0) && find_free_halfface(cyc, h)) { hfs.push_back(h); continue; }
      int f;
      if (!prim_add_face_he(cyc, (a[4] >> 3) & 1, f)) return false;
      hfs.push_back(HFu{f, 0});
    }
    // a halfface may be needed twice only through degenerate templates (2-gon pillow on one face)
    for (size_t i = 0; i < hfs.size(); ++i)
      for (size_t j = i + 1; j < hfs.size(); ++j)
        if (hfs[i] == hfs[j]) { count("skip:template_repeats_halfface"); return true; }
    int c;
    count("cells_built");
    return prim_add_cell(hfs, check, c);
  }

  bool op_add_cone(const int *a) {
    std::vector<HFu> free;
    for (size_t f = 0; f < L.F.size(); ++f)
      if (L.F[f].alive)
        for (int s = 0; s < 2; ++s) {
          HFu h{(int)f, s};
          if (!L.hf_free(h)) continue;
          bool opp_used = !L.hf_free(HFu{(int)f, s ^ 1});
          if (a[3] % 4 != 0 && !opp_used) continue;  // mostly glue onto existing cells
          free.push_back(h);
        }
    if (free.empty()) { count("skip:no_free_halfface"); return true; }
    HFu base = free[(size_t)a[0] % free.size()];
    auto hes = L.hf_hes(base);
    if (!closed_loop(L, hes)) { count("skip:base_not_closed"); return true; }
    for (size_t i = 0; i < hes.size(); ++i)
      for (size_t j = i + 1; j < hes.size(); ++j)
        if (hes[i].e == hes[j].e) { count("skip:base_degenerate"); return true; }
    auto bv = L.hf_vertices(base);
    { auto sv = bv; std::sort(sv.begin(), sv.end()); if (std::unique(sv.begin(), sv.end()) != sv.end()) { count("skip:base_degenerate"); return true; } }
    int apex = -1;
    if (a[1] % 3 != 0) {
      auto l = L.live(KV);
      for (size_t t = 0; t < l.size(); ++t) {
        int v = l[((size_t)a[2] + t) % l.size()];
        if (std::find(bv.begin(), bv.end(), v) == bv.end()) { apex = v; break; }
      }
    }
    if (apex < 0) {
      if (L.n_live(KV) >= max_vertices) { count("skip:max_vertices"); return true; }
      apex = (int)L.V.size();
      if (!prim_add_vertex(true)) return false;
    }
    std::map<int, int> spoke;  // base vertex -> edge to apex
    for (int v : bv) {
      if (spoke.count(v)) continue;
      int e;
      if (!edge_for(v, apex, a[2], false, e)) return fail.empty();
      spoke[v] = e;
    }
    std::vector<HFu> hfs{base};
    for (auto he : hes) {
      int x = L.he_from(he), y = L.he_to(he);
      std::vector<HEu> cyc{HEu{he.e, he.s ^ 1}, he_dir(spoke[x], x), he_dir(spoke[y], apex)};
      HFu h;
      if (find_free_halfface(cyc, h) && !(h == base)) { hfs.push_back(h); continue; }
      int f;
      if (!prim_add_face_he(cyc, false, f)) return false;
      hfs.push_back(HFu{f, 0});
    }
    for (size_t i = 0; i < hfs.size(); ++i)
      for (size_t j = i + 1; j < hfs.size(); ++j)
        if (hfs[i] == hfs[j]) { count("skip:cone_repeats_halfface"); return true; }
    int c;
    count("cells_built");
    // double cone over a face that is free on both sides, stored as one cell: a closed cell containing both halffaces
    // of a face (an internal membrane)
    if (allow_membrane && a[4] % 3 == 0 && L.hf_free(HFu{base.f, base.s ^ 1}) && L.n_live(KV) < max_vertices) {
      int apex2 = (int)L.V.size();
      if (!prim_add_vertex(true)) return false;
      HFu obase{base.f, base.s ^ 1};
      auto ohes = L.hf_hes(obase);
      std::map<int, int> spoke2;
      for (int v : bv) { int e; if (!edge_for(v, apex2, a[2], false, e)) return fail.empty(); spoke2[v] = e; }
      hfs.push_back(obase);
      for (auto he : ohes) {
        int x = L.he_from(he), y = L.he_to(he);
        std::vector<HEu> cyc{HEu{he.e, he.s ^ 1}, he_dir(spoke2[x], x), he_dir(spoke2[y], apex2)};
        int f;
        if (!prim_add_face_he(cyc, false, f)) return false;
        hfs.push_back(HFu{f, 0});
      }
      count("membrane_cells_built");
      return prim_add_cell(hfs, false, c);
    }
    count("cones_glued");
    return prim_add_cell(hfs, a[3] & 1, c);
  }
};

}  // namespace vf
