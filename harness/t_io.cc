// C06 (OVMB part): native binary format round trip, reference decoder, reference encoder variants,
// type detection, pending deletions.
#include "interp.hh"
#include "io_common.hh"
#include "rcmain.hh"

using namespace vf;
using namespace vfio;

namespace target {

const std::vector<OpInfo> &optable() { return poly_optable(); }

std::vector<std::pair<int, int>> weights(const std::string &) {
  return {{5, O_ADD_VERTEX}, {3, O_ADD_N_VERTICES}, {5, O_ADD_EDGE}, {7, O_ADD_FACE_V}, {4, O_ADD_FACE_HE}, {14, O_ADD_CELL_TPL},
          {8, O_ADD_CONE}, {3, O_ADD_RING}, {2, O_DEL_V}, {2, O_DEL_E}, {3, O_DEL_F}, {3, O_DEL_C}, {1, O_SWAP_V}, {1, O_SWAP_E},
          {1, O_SWAP_F}, {1, O_SWAP_C}, {1, O_GC}, {2, O_EN_DEFERRED}, {2, O_EN_FAST}, {12, O_PROP_CREATE}, {14, O_PROP_WRITE}, {1, O_QUERY}};
}

static std::string oneline(std::string s) { for (auto &c : s) if (c == '\n' || c == '\r') c = ' '; return s; }

struct IoStats {
  uint64_t variants = 0, reads = 0, pending_checked = 0, boundary = 0, cross_type_reads = 0;
};

static std::vector<ovmbref::EncodeOptions> variants_for(int sel, bool poly) {
  std::vector<ovmbref::EncodeOptions> v;
  ovmbref::EncodeOptions a;
  a.vert_spans = 1 + sel % 4; a.edge_spans = 1 + (sel / 4) % 4; a.face_spans = 1 + (sel / 16) % 3; a.cell_spans = 1 + (sel / 48) % 3;
  v.push_back(a);
  ovmbref::EncodeOptions b;
  b.wide_ints = sel & 1; b.float_vertices = sel & 2; b.handle_offsets = !(sel & 4); b.force_variable_valence = poly && (sel & 8);
  b.optional_chunks = sel & 16; b.props_interleaved = sel & 32; b.prop_spans = 1 + (sel / 64) % 3; b.odd_padding = sel & 128;
  b.edge_spans = 1 + (sel / 2) % 3; b.face_spans = 1 + (sel / 8) % 2;
  v.push_back(b);
  return v;
}

// all OVMB oracles on one mesh. topo: expected detected topology type (0 poly, 1 tet, 2 hex)
template <class M> std::string ovmb_checks(M &m, int topo, std::vector<IOProp> &props, const Op &cfg, bool passes_topo_check, IoStats &is) {
  std::ostringstream o;
  Bytes bytes;
  std::string w = write_ovmb_bytes([&](std::ostream &s) { return IO::ovmb_write(s, m); }, bytes);
  if (!w.empty()) return w + " for a mesh without pending deletions";
  RefMesh ref = to_ref(m, topo, props);
  // (2) the bytes decode under the published description to that same mesh
  auto dec = ovmbref::ref_decode(bytes);
  if (dec.verdict != ovmbref::Verdict::Ok) return "reference decoder (from ovmb.ksy) rejects the writer's output: " + dec.reason;
  std::string c = compare_ref(ref, dec.mesh);
  if (!c.empty()) return "writer output decoded by the reference decoder: " + c;
  // (4) type detection
  {
    std::istringstream ss(std::string(bytes.begin(), bytes.end()), std::ios::binary);
    auto rd = IO::make_ovmb_reader(ss, IO::ReadOptions(), IO::g_default_property_codecs);
    auto tt = rd->topo_type();
    if (!tt || (int)*tt != topo) { o << "file topo_type is " << (tt ? (int)*tt : -1) << ", expected " << topo << " from the face/cell valences / mesh type"; return o.str(); }
  }
  // (1) library round trip, both option values
  for (int k = 0; k < 2; ++k) {
    bool check = passes_topo_check && ((cfg.a[1] >> k) & 1);
    bool bu = (cfg.a[2] >> k) & 1;
    M back;
    auto rr = read_ovmb_bytes(bytes, back, check, bu);
    ++is.reads;
    if (rr != IO::ReadResult::Ok) { o << "ovmb_read(topology_check=" << check << ", bottom_up=" << bu << ") of the writer's output returned " << IO::to_string(rr); return o.str(); }
    c = compare_meshes(m, back, props, false);
    if (!c.empty()) return "round trip (topology_check=" + std::to_string(check) + "): " + c;
    if (back.has_vertex_bottom_up_incidences() != bu || back.has_edge_bottom_up_incidences() != bu || back.has_face_bottom_up_incidences() != bu)
      return "bottom-up incidences after reading do not match ReadOptions";
  }
  // (3) every permitted re-encoding reads to the same mesh
  for (auto &opt : variants_for(cfg.a[0] + 256 * (cfg.a[3] % 4), topo == 0)) {
    Bytes alt = ovmbref::ref_encode(ref, opt);
    M back;
    auto rr = read_ovmb_bytes(alt, back, passes_topo_check && (cfg.a[1] & 4), true);
    ++is.variants;
    if (rr != IO::ReadResult::Ok) {
      o << "a permitted re-encoding (spans v/e/f/c " << opt.vert_spans << "/" << opt.edge_spans << "/" << opt.face_spans << "/" << opt.cell_spans << ", wide_ints " << opt.wide_ints
        << ", float " << opt.float_vertices << ", handle_offsets " << opt.handle_offsets << ", variable_valence " << opt.force_variable_valence << ", optional_chunks "
        << opt.optional_chunks << ", props_interleaved " << opt.props_interleaved << ", prop_spans " << opt.prop_spans << ") is rejected: " << IO::to_string(rr);
      return o.str();
    }
    c = compare_meshes(m, back, props, opt.float_vertices);
    if (!c.empty()) {
      o << "a permitted re-encoding (spans v/e/f/c " << opt.vert_spans << "/" << opt.edge_spans << "/" << opt.face_spans << "/" << opt.cell_spans << ", wide_ints " << opt.wide_ints
        << ", float " << opt.float_vertices << ", handle_offsets " << opt.handle_offsets << ", variable_valence " << opt.force_variable_valence << ", props_interleaved "
        << opt.props_interleaved << ", prop_spans " << opt.prop_spans << ") reads to a different mesh: " << c;
      return o.str();
    }
  }
  return "";
}

template <class M> std::string pending_check(M &m, IoStats &is) {
  // (5) a mesh with pending deletions is refused or written as its logical content
  ++is.pending_checked;
  Bytes bytes;
  std::string w = write_ovmb_bytes([&](std::ostream &s) { return IO::ovmb_write(s, m); }, bytes);
  if (!w.empty()) return "";  // refused
  M back;
  auto rr = read_ovmb_bytes(bytes, back, false, true);
  if (rr != IO::ReadResult::Ok) return "a mesh with pending deletions was written (result Ok) as a file that cannot be read back";
  if (back.n_vertices() != m.n_logical_vertices() || back.n_edges() != m.n_logical_edges() || back.n_faces() != m.n_logical_faces() || back.n_cells() != m.n_logical_cells())
    return "a mesh with pending deletions was written (result Ok) as a file that reads back as a different mesh";
  return "";
}

// simple tet / hex builders driven by the same op list
template <class M> void build_simplicial(M &m, const Program &prog, bool hex, bool &pending_seen, std::string &fail, IoStats &is) {
  using Vec = typename M::PointT;
  int vcount = 0;
  auto addv = [&]() { ++vcount; return m.add_vertex(Vec((double)vcount, (double)((vcount * 7) % 5) + 0.5, (double)((vcount * 3) % 11))); };
  for (int i = 0; i < (hex ? 8 : 4); ++i) addv();
  for (auto &op : prog) {
    size_t nv = m.n_vertices();
    auto pickv = [&](int a) { return VertexHandle((int)((size_t)a % nv)); };
    switch (op.code) {
    case O_ADD_VERTEX: case O_ADD_N_VERTICES: if (nv < 40) addv(); break;
    case O_ADD_CELL_TPL: case O_ADD_CONE: case O_ADD_RING: case O_ADD_FACE_V: case O_ADD_FACE_HE: {
      std::vector<VertexHandle> vs;
      int need = hex ? 8 : 4;
      for (int j = 0; j < need; ++j) {
        VertexHandle v = pickv(op.a[0] + j * (1 + op.a[1] % 3));
        if (m.is_deleted(v) || std::find(vs.begin(), vs.end(), v) != vs.end()) { if (nv + vs.size() < 48) v = addv(); else break; }
        vs.push_back(v);
      }
      if ((int)vs.size() == need) m.add_cell(vs, true);
      break;
    }
    case O_DEL_C: if (m.n_cells()) { CellHandle c((int)((size_t)op.a[0] % m.n_cells())); if (!m.is_deleted(c)) m.delete_cell(c); } break;
    case O_DEL_F: if (m.n_faces()) { FaceHandle f((int)((size_t)op.a[0] % m.n_faces())); if (!m.is_deleted(f)) m.delete_face(f); } break;
    case O_DEL_E: if (m.n_edges()) { EdgeHandle e((int)((size_t)op.a[0] % m.n_edges())); if (!m.is_deleted(e)) m.delete_edge(e); } break;
    case O_DEL_V: if (nv > 8) { VertexHandle v = pickv(op.a[0]); if (!m.is_deleted(v)) m.delete_vertex(v); } break;
    case O_GC: m.collect_garbage(); break;
    case O_EN_DEFERRED: m.enable_deferred_deletion(op.a[0] & 1); break;
    case O_EN_FAST: m.enable_fast_deletion(op.a[0] & 1); break;
    default: break;
    }
    if (m.needs_garbage_collection() && !pending_seen && fail.empty()) { pending_seen = true; fail = pending_check(m, is); }
  }
  m.enable_deferred_deletion(false);
}

static void bulk(PolyMesh &m, const Op &op, IoStats &is) {
  static const size_t vb[8] = {254, 255, 256, 257, 65534, 65535, 65536, 65537};
  static const size_t eb[6] = {127, 128, 129, 32767, 32768, 32769};
  size_t t;
  switch (op.a[0] % 3) {
  case 0:
    t = vb[op.a[1] % ((op.a[2] % 8 == 0) ? 8 : 4)];
    if (m.n_vertices() < t) m.add_n_vertices(t - m.n_vertices());
    break;
  case 1:
    t = eb[op.a[1] % ((op.a[2] % 8 == 0) ? 6 : 3)];
    if (m.n_vertices() < 2) m.add_n_vertices(2);
    for (size_t i = m.n_edges(); i < t; ++i) m.add_edge(VertexHandle((int)(i % m.n_vertices())), VertexHandle((int)((i + 1) % m.n_vertices())), true);
    break;
  default: {
    t = eb[op.a[1] % ((op.a[2] % 8 == 0) ? 6 : 3)];
    if (m.n_vertices() < 3) m.add_n_vertices(3);
    EdgeHandle e0 = m.add_edge(VertexHandle(0), VertexHandle(1), true), e1 = m.add_edge(VertexHandle(1), VertexHandle(2), true), e2 = m.add_edge(VertexHandle(2), VertexHandle(0), true);
    for (size_t i = m.n_faces(); i < t; ++i) m.add_face({m.halfedge_handle(e0, 0), m.halfedge_handle(e1, 0), m.halfedge_handle(e2, 0)}, false);
    break;
  }
  }
  ++is.boundary;
}

template <class M> std::vector<IOProp> apply_prop_ops(M &m, const Program &prog, std::vector<std::string> &annot) {
  std::vector<IOProp> props;
  int counter = 0;
  for (size_t i = 0; i < prog.size(); ++i) {
    const Op &op = prog[i];
    if (op.code == O_PROP_CREATE && props.size() < 10) {
      std::string name = (op.a[3] % 5 == 0 ? std::string("we ird\tname \"q\" ") : std::string("p")) + std::to_string(counter++);
      props.push_back(make_io_prop_kt(m, op.a[0], op.a[1], name, op.a[2]));
      annot[i] = "persistent " + props.back().type_name + " property '" + name + "' on entity kind " + std::to_string(props.back().ent);
    } else if (op.code == O_PROP_WRITE && !props.empty()) {
      IOProp &p = props[(size_t)op.a[0] % props.size()];
      p.write(m, (size_t)op.a[1] * 7 + (size_t)op.a[3], op.a[2]);
      annot[i] = "write '" + p.name + "'";
    }
  }
  return props;
}

vf::CaseResult run_case(const std::string &id, const Program &prog, Stats &st) {
  CaseResult res;
  res.annot.assign(prog.size(), "");
  if (prog.empty()) return res;
  IoStats is;
  const Op &cfg = prog[0];
  int kind = cfg.a[4] % 4;  // 0,3: polyhedral, 1: tetrahedral, 2: hexahedral
  std::string fail;
  bool pending_seen = false;
  bool has_cell = false;
  std::vector<IOProp> props;
  if (kind == 1 || kind == 2) {
    if (kind == 1) {
      GeometricTetrahedralMeshV3d m;
      build_simplicial(m, prog, false, pending_seen, fail, is);
      props = apply_prop_ops(m, prog, res.annot);
      has_cell = m.n_cells() > 0;
      if (fail.empty()) fail = ovmb_checks(m, 1, props, cfg, true, is);
      if (fail.empty() && m.n_cells() > 0) {  // a tetrahedral file also reads into a polyhedral mesh
        Bytes bytes;
        write_ovmb_bytes([&](std::ostream &s) { return IO::ovmb_write(s, m); }, bytes);
        GeometricPolyhedralMeshV3d back;
        ++is.cross_type_reads;
        if (read_ovmb_bytes(bytes, back, true, true) != IO::ReadResult::Ok) fail = "tetrahedral file is not readable into a polyhedral mesh";
        else fail = compare_meshes(m, back, props, false);
      }
    } else {
      GeometricHexahedralMeshV3d m;
      build_simplicial(m, prog, true, pending_seen, fail, is);
      props = apply_prop_ops(m, prog, res.annot);
      has_cell = m.n_cells() > 0;
      if (fail.empty()) fail = ovmb_checks(m, 2, props, cfg, true, is);
    }
    st.count(kind == 1 ? "mesh:tetrahedral" : "mesh:hexahedral");
  } else {
    Interp I;
    I.st = &st;
    I.allow_set = false;
    Sut &S = I.add_sut("mesh");
    for (size_t i = 0; i < prog.size(); ++i) {
      const Op &op = prog[i];
      if (op.code == O_PROP_CREATE || op.code == O_PROP_WRITE || op.code == O_QUERY) continue;
      bool cont = I.run_op(op);
      res.annot[i] = I.cur_annot;
      if (S.mesh.needs_garbage_collection() && !pending_seen && fail.empty()) { pending_seen = true; fail = pending_check(S.mesh, is); }
      if (!cont) break;
    }
    if (!I.fail.empty()) { st.count("discarded_prereq_" + I.fail_owner); return res; }
    S.mesh.enable_deferred_deletion(false);
    for (size_t i = 0; i < prog.size(); ++i) if (prog[i].code == O_QUERY) { bulk(S.mesh, prog[i], is); res.annot[i] = "grow to an index-width boundary size"; }
    props = apply_prop_ops(S.mesh, prog, res.annot);
    has_cell = S.mesh.n_cells() > 0;
    int topo = 0;
    if (IO::detail::mesh_is_tetrahedral(S.mesh)) topo = 1;  // recomputed independently below
    {
      bool all3 = true, all4f = true, c4 = true, c6 = true;
      for (auto f : S.mesh.faces()) { all3 = all3 && S.mesh.valence(f) == 3; all4f = all4f && S.mesh.valence(f) == 4; }
      for (auto c : S.mesh.cells()) { c4 = c4 && S.mesh.valence(c) == 4; c6 = c6 && S.mesh.valence(c) == 6; }
      topo = (S.mesh.n_cells() > 0 && all3 && c4) ? 1 : (S.mesh.n_cells() > 0 && all4f && c6) ? 2 : 0;
    }
    if (fail.empty()) fail = ovmb_checks(S.mesh, topo, props, cfg, true, is);
    if (fail.empty() && topo == 1) {  // all-tet polyhedral mesh is stored as tetrahedral and reads into a TetrahedralMesh
      Bytes bytes;
      write_ovmb_bytes([&](std::ostream &s) { return IO::ovmb_write(s, S.mesh); }, bytes);
      GeometricTetrahedralMeshV3d back;
      ++is.cross_type_reads;
      if (read_ovmb_bytes(bytes, back, true, true) != IO::ReadResult::Ok) fail = "all-tet polyhedral mesh (auto-detected as tetrahedral) is not readable into a TetrahedralMesh";
      else fail = compare_meshes(S.mesh, back, props, false);
    }
    if (fail.empty() && topo == 2) {
      Bytes bytes;
      write_ovmb_bytes([&](std::ostream &s) { return IO::ovmb_write(s, S.mesh); }, bytes);
      GeometricHexahedralMeshV3d back;
      ++is.cross_type_reads;
      if (read_ovmb_bytes(bytes, back, false, true) != IO::ReadResult::Ok) fail = "all-hex polyhedral mesh (auto-detected as hexahedral) is not readable into a HexahedralMesh";
      else fail = compare_meshes(S.mesh, back, props, false);
    }
    st.count("mesh:polyhedral");
    st.count(std::string("detected_topo_") + (topo == 0 ? "poly" : topo == 1 ? "tet" : "hex"));
  }
  st.count("ovmb_reads", is.reads); st.count("reencoded_variants_read", is.variants); st.count("pending_deletion_writes_checked", is.pending_checked);
  st.count("index_width_boundary_growths", is.boundary); st.count("cross_type_reads", is.cross_type_reads); st.count("persistent_props", props.size());
  std::set<int> ents; bool half = false, boolstr = false;
  for (auto &p : props) { ents.insert(p.ent); if (p.ent == 4 || p.ent == 5) half = true; if (p.type == 0 || p.type == 11) boolstr = true; }
  res.nontrivial = (has_cell && ents.size() >= 2 && half && boolstr) || is.boundary > 0;
  if (!fail.empty()) { res.ok = false; res.msg = oneline(fail); }
  (void)id;
  return res;
}

}  // namespace target

int main(int argc, char **argv) { return vf::generic_main(argc, argv); }
