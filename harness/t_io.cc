// C06 (OVMB part): native binary format round trip, reference decoder, reference encoder variants,
// type detection, pending deletions.
#include "interp.hh"
#include "io_common.hh"
#include "io_gen.hh"
#include "rcmain.hh"

using namespace vf;
using namespace vfio;

namespace target {

const std::vector<OpInfo> &optable() { return poly_optable(); }

std::vector<std::pair<int, int>> weights(const std::string &) {
  return {{5, O_ADD_VERTEX}, {3, O_ADD_N_VERTICES}, {5, O_ADD_EDGE}, {7, O_ADD_FACE_V}, {4, O_ADD_FACE_HE}, {14, O_ADD_CELL_TPL},
          {8, O_ADD_CONE}, {3, O_ADD_RING}, {2, O_DEL_V}, {2, O_DEL_E}, {3, O_DEL_F}, {3, O_DEL_C}, {1, O_SWAP_V}, {1, O_SWAP_E},
          {1, O_SWAP_F}, {1, O_SWAP_C}, {1, O_GC}, {2, O_EN_DEFERRED}, {2, O_EN_FAST}, {12, O_PROP_CREATE}, {14, O_PROP_WRITE}, {1, O_QUERY}};
}

static std::string oneline(std::string s) { for (auto &c : s) if (c == '\n' || c == '\r') c = ' '; return s; }

static std::vector<ovmbref::EncodeOptions> variants_for(int sel, bool poly) {
  std::vector<ovmbref::EncodeOptions> v;
  ovmbref::EncodeOptions a;
  a.vert_spans = 1 + sel % 4; a.edge_spans = 1 + (sel / 4) % 4; a.face_spans = 1 + (sel / 16) % 3; a.cell_spans = 1 + (sel / 48) % 3;
  v.push_back(a);
  ovmbref::EncodeOptions b;
  b.wide_ints = sel & 1; b.float_vertices = sel & 2; b.handle_offsets = !(sel & 4); b.force_variable_valence = poly && (sel & 8);
  b.optional_chunks = sel & 16; b.props_interleaved = sel & 32; b.prop_spans = 1 + (sel / 64) % 3; b.odd_padding = sel & 128;
  b.edge_spans = 1 + (sel / 2) % 3; b.face_spans = 1 + (sel / 8) % 2;
  v.push_back(b);
  return v;
}

// all OVMB oracles on one mesh. topo: expected detected topology type (0 poly, 1 tet, 2 hex)
template <class M> std::string ovmb_checks(M &m, int topo, std::vector<IOProp> &props, const Op &cfg, bool passes_topo_check, IoStats &is) {
  std::ostringstream o;
  Bytes bytes;
  std::string w = write_ovmb_bytes([&](std::ostream &s) { return IO::ovmb_write(s, m); }, bytes);
  if (!w.empty()) return w + " for a mesh without pending deletions";
  RefMesh ref = to_ref(m, topo, props);
  // (2) the bytes decode under the published description to that same mesh
  auto dec = ovmbref::ref_decode(bytes);
  if (dec.verdict != ovmbref::Verdict::Ok) return "reference decoder (from ovmb.ksy) rejects the writer's output: " + dec.reason;
  std::string c = compare_ref(ref, dec.mesh);
  if (!c.empty()) return "writer output decoded by the reference decoder: " + c;
  // (4) type detection
  {
    std::istringstream ss(std::string(bytes.begin(), bytes.end()), std::ios::binary);
    auto rd = IO::make_ovmb_reader(ss, IO::ReadOptions(), IO::g_default_property_codecs);
    auto tt = rd->topo_type();
    if (!tt || (int)*tt != topo) { o << "file topo_type is " << (tt ? (int)*tt : -1) << ", expected " << topo << " from the face/cell valences / mesh type"; return o.str(); }
  }
  // (1) library round trip, both option values
  for (int k = 0; k < 2; ++k) {
    bool check = passes_topo_check && ((cfg.a[1] >> k) & 1);
    bool bu = (cfg.a[2] >> k) & 1;
    M back;
    auto rr = read_ovmb_bytes(bytes, back, check, bu);
    ++is.reads;
    if (rr != IO::ReadResult::Ok) { o << "ovmb_read(topology_check=" << check << ", bottom_up=" << bu << ") of the writer's output returned " << IO::to_string(rr); return o.str(); }
    c = compare_meshes(m, back, props, false);
    if (!c.empty()) return "round trip (topology_check=" + std::to_string(check) + "): " + c;
    if (back.has_vertex_bottom_up_incidences() != bu || back.has_edge_bottom_up_incidences() != bu || back.has_face_bottom_up_incidences() != bu)
      return "bottom-up incidences after reading do not match ReadOptions";
  }
  // (3) every permitted re-encoding reads to the same mesh
  for (auto &opt : variants_for(cfg.a[0] + 256 * (cfg.a[3] % 4), topo == 0)) {
    Bytes alt = ovmbref::ref_encode(ref, opt);
    M back;
    auto rr = read_ovmb_bytes(alt, back, passes_topo_check && (cfg.a[1] & 4), true);
    ++is.variants;
    if (rr != IO::ReadResult::Ok) {
      o << "a permitted re-encoding (spans v/e/f/c " << opt.vert_spans << "/" << opt.edge_spans << "/" << opt.face_spans << "/" << opt.cell_spans << ", wide_ints " << opt.wide_ints
        << ", float " << opt.float_vertices << ", handle_offsets " << opt.handle_offsets << ", variable_valence " << opt.force_variable_valence << ", optional_chunks "
        << opt.optional_chunks << ", props_interleaved " << opt.props_interleaved << ", prop_spans " << opt.prop_spans << ") is rejected: " << IO::to_string(rr);
      return o.str();
    }
    c = compare_meshes(m, back, props, opt.float_vertices);
    if (!c.empty()) {
      o << "a permitted re-encoding (spans v/e/f/c " << opt.vert_spans << "/" << opt.edge_spans << "/" << opt.face_spans << "/" << opt.cell_spans << ", wide_ints " << opt.wide_ints
        << ", float " << opt.float_vertices << ", handle_offsets " << opt.handle_offsets << ", variable_valence " << opt.force_variable_valence << ", props_interleaved "
        << opt.props_interleaved << ", prop_spans " << opt.prop_spans << ") reads to a different mesh: " << c;
      return o.str();
    }
  }
  return "";
}

vf::CaseResult run_case(const std::string &id, const Program &prog, Stats &st) {
  CaseResult res;
  res.annot.assign(prog.size(), "");
  if (prog.empty()) return res;
  IoStats is;
  const Op &cfg = prog[0];
  int kind = cfg.a[4] % 4;  // 0,3: polyhedral, 1: tetrahedral, 2: hexahedral
  // every fifth tetrahedral case uses single-precision positions (Vec3f kernel: float vertex encoding in the file)
  const bool tet_float = kind == 1 && (cfg.a[3] % 5 == 0);
  std::string fail;
  bool pending_seen = false;
  bool has_cell = false;
  std::vector<IOProp> props;
  if (kind == 1 || kind == 2) {
    if (tet_float) {
      GeometricTetrahedralMeshV3f m;
      build_simplicial(m, prog, false, pending_seen, fail, is);
      // positions that are not representable in single precision must come back as the stored floats
      for (auto v : m.vertices()) m.set_vertex(v, m.vertex(v) * 1.1f + Geometry::Vec3f(0.1f, 1e-3f, 3e7f));
      props = apply_prop_ops(m, prog, res.annot);
      has_cell = m.n_cells() > 0;
      if (fail.empty()) fail = ovmb_checks(m, 1, props, cfg, true, is);
      if (fail.empty()) {  // the float file also reads into a double precision tetrahedral mesh, exactly
        Bytes bytes;
        write_ovmb_bytes([&](std::ostream &s) { return IO::ovmb_write(s, m); }, bytes);
        GeometricTetrahedralMeshV3d back;
        ++is.cross_type_reads;
        if (read_ovmb_bytes(bytes, back, true, true) != IO::ReadResult::Ok) fail = "single-precision tetrahedral file is not readable into a double precision mesh";
        else fail = compare_meshes(m, back, props, false);
      }
      st.count("mesh:tetrahedral_vec3f");
    } else if (kind == 1) {
      GeometricTetrahedralMeshV3d m;
      build_simplicial(m, prog, false, pending_seen, fail, is);
      props = apply_prop_ops(m, prog, res.annot);
      has_cell = m.n_cells() > 0;
      if (fail.empty()) fail = ovmb_checks(m, 1, props, cfg, true, is);
      if (fail.empty() && m.n_cells() > 0) {  // a tetrahedral file also reads into a polyhedral mesh
        Bytes bytes;
        write_ovmb_bytes([&](std::ostream &s) { return IO::ovmb_write(s, m); }, bytes);
        GeometricPolyhedralMeshV3d back;
        ++is.cross_type_reads;
        if (read_ovmb_bytes(bytes, back, true, true) != IO::ReadResult::Ok) fail = "tetrahedral file is not readable into a polyhedral mesh";
        else fail = compare_meshes(m, back, props, false);
      }
    } else {
      GeometricHexahedralMeshV3d m;
      build_simplicial(m, prog, true, pending_seen, fail, is);
      props = apply_prop_ops(m, prog, res.annot);
      has_cell = m.n_cells() > 0;
      if (fail.empty()) fail = ovmb_checks(m, 2, props, cfg, true, is);
    }
    if (!tet_float) st.count(kind == 1 ? "mesh:tetrahedral" : "mesh:hexahedral");
  } else {
    Interp I;
    I.st = &st;
    I.allow_set = false;
    Sut &S = I.add_sut("mesh");
    for (size_t i = 0; i < prog.size(); ++i) {
      const Op &op = prog[i];
      if (op.code == O_PROP_CREATE || op.code == O_PROP_WRITE || op.code == O_QUERY) continue;
      bool cont = I.run_op(op);
      res.annot[i] = I.cur_annot;
      if (S.mesh.needs_garbage_collection() && !pending_seen && fail.empty()) { pending_seen = true; fail = pending_check(S.mesh, is); }
      if (!cont) break;
    }
    if (!I.fail.empty()) { st.count("discarded_prereq_" + I.fail_owner); return res; }
    S.mesh.enable_deferred_deletion(false);
    for (size_t i = 0; i < prog.size(); ++i) if (prog[i].code == O_QUERY) { bulk(S.mesh, prog[i], is); res.annot[i] = "grow to an index-width boundary size"; }
    props = apply_prop_ops(S.mesh, prog, res.annot);
    has_cell = S.mesh.n_cells() > 0;
    int topo = 0;
    if (IO::detail::mesh_is_tetrahedral(S.mesh)) topo = 1;  // recomputed independently below
    {
      bool all3 = true, all4f = true, c4 = true, c6 = true;
      for (auto f : S.mesh.faces()) { all3 = all3 && S.mesh.valence(f) == 3; all4f = all4f && S.mesh.valence(f) == 4; }
      for (auto c : S.mesh.cells()) { c4 = c4 && S.mesh.valence(c) == 4; c6 = c6 && S.mesh.valence(c) == 6; }
      topo = (S.mesh.n_cells() > 0 && all3 && c4) ? 1 : (S.mesh.n_cells() > 0 && all4f && c6) ? 2 : 0;
    }
    if (fail.empty()) fail = ovmb_checks(S.mesh, topo, props, cfg, true, is);
    if (fail.empty() && topo == 1) {  // all-tet polyhedral mesh is stored as tetrahedral and reads into a TetrahedralMesh
      Bytes bytes;
      write_ovmb_bytes([&](std::ostream &s) { return IO::ovmb_write(s, S.mesh); }, bytes);
      GeometricTetrahedralMeshV3d back;
      ++is.cross_type_reads;
      if (read_ovmb_bytes(bytes, back, true, true) != IO::ReadResult::Ok) fail = "all-tet polyhedral mesh (auto-detected as tetrahedral) is not readable into a TetrahedralMesh";
      else fail = compare_meshes(S.mesh, back, props, false);
    }
    if (fail.empty() && topo == 2) {
      Bytes bytes;
      write_ovmb_bytes([&](std::ostream &s) { return IO::ovmb_write(s, S.mesh); }, bytes);
      GeometricHexahedralMeshV3d back;
      ++is.cross_type_reads;
      if (read_ovmb_bytes(bytes, back, false, true) != IO::ReadResult::Ok) fail = "all-hex polyhedral mesh (auto-detected as hexahedral) is not readable into a HexahedralMesh";
      else fail = compare_meshes(S.mesh, back, props, false);
    }
    st.count("mesh:polyhedral");
    st.count(std::string("detected_topo_") + (topo == 0 ? "poly" : topo == 1 ? "tet" : "hex"));
  }
  st.count("ovmb_reads", is.reads); st.count("reencoded_variants_read", is.variants); st.count("pending_deletion_writes_checked", is.pending_checked);
  st.count("index_width_boundary_growths", is.boundary); st.count("cross_type_reads", is.cross_type_reads); st.count("persistent_props", props.size());
  std::set<int> ents; bool half = false, boolstr = false;
  for (auto &p : props) { ents.insert(p.ent); if (p.ent == 4 || p.ent == 5) half = true; if (p.type == 0 || p.type == 11) boolstr = true; }
  res.nontrivial = (has_cell && ents.size() >= 2 && half && boolstr) || is.boundary > 0;
  if (!fail.empty()) { res.ok = false; res.msg = oneline(fail); }
  (void)id;
  return res;
}

}  // namespace target

VF_DEFINE_MAIN
