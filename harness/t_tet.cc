// C15: tetrahedral kernel - shape invariants, vertex-order contracts, TetTopology labels, edge collapse.
// (also C05's protocol for tv_iter and C03's "values follow entities" for collapse_edge)
#include "common.hh"
#include "oracle_c01.hh"
#include "oracle_c05.hh"
#include "rcmain.hh"
#include <OpenVolumeMesh/Mesh/TetrahedralMesh.hh>
#include <OpenVolumeMesh/Unstable/Topology/TetTopology.hh>
#include <OpenVolumeMesh/Unstable/Topology/TetTopology_impl.hh>
#include <OpenVolumeMesh/Unstable/Topology/TriangleTopology.hh>
#include <array>
#include <map>
#include <set>

using namespace vf;
using namespace OpenVolumeMesh;
using TetMesh = GeometricTetrahedralMeshV3d;
using Vec3d = Geometry::Vec3d;
using TT = TetTopology;

namespace target {

enum TOp { T_ADD_VERTEX, T_ADD_TET, T_ADD_TET_VEC, T_GLUE, T_RING, T_STAR, T_BAD_ADD, T_DEL_V, T_DEL_E, T_DEL_F, T_DEL_C, T_GC, T_DEFERRED, T_FAST, T_COLLAPSE, T_COUNT };

const std::vector<OpInfo> &optable() {
  static const std::vector<OpInfo> t = {{"add_vertex", 0}, {"add_tet", 5}, {"add_tet_vec", 5}, {"glue_tet_on_halfface", 3}, {"ring_of_tets", 4},
                                        {"vertex_star", 3}, {"rejected_add", 3}, {"delete_vertex", 1}, {"delete_edge", 1}, {"delete_face", 1},
                                        {"delete_cell", 1}, {"collect_garbage", 0}, {"enable_deferred", 1}, {"enable_fast", 1}, {"collapse_edge", 2}};
  return t;
}
std::vector<std::pair<int, int>> weights(const std::string &) {
  return {{6, T_ADD_VERTEX}, {10, T_ADD_TET}, {6, T_ADD_TET_VEC}, {12, T_GLUE}, {6, T_RING}, {4, T_STAR}, {4, T_BAD_ADD}, {2, T_DEL_V}, {2, T_DEL_E},
          {2, T_DEL_F}, {3, T_DEL_C}, {2, T_GC}, {2, T_DEFERRED}, {2, T_FAST}, {10, T_COLLAPSE}};
}

static std::string oneline(std::string s) { for (auto &c : s) if (c == '\n' || c == '\r') c = ' '; return s; }

using Tet = std::array<int, 4>;
// canonical representative of an oriented tet (even permutations are the same tet)
static Tet canon(Tet t) {
  int swaps = 0;
  for (int i = 0; i < 4; ++i) for (int j = 0; j + 1 < 4 - i; ++j) if (t[(size_t)j] > t[(size_t)j + 1]) { std::swap(t[(size_t)j], t[(size_t)j + 1]); ++swaps; }
  if (swaps & 1) std::swap(t[2], t[3]);  // sorted except for the last two = odd class
  return t;
}

struct TetState {
  TetMesh m;
  int next_uid = 0;
  std::string fail;
  Stats *st = nullptr;
  uint64_t cell_checks = 0, label_checks = 0, collapses = 0, interior_collapses = 0, merging_collapses = 0, rejected = 0, opposite_rotation_faces = 0;

  std::vector<HalfEdgeHandle> HH(HalfFaceHandle h) const { return m.halfface(h).halfedges(); }  // by value: halfface() returns a temporary
  int uid(VertexHandle v) const { return (int)(m.vertex(v)[0] + 0.5); }
  VertexHandle add_vertex() { int u = next_uid++; return m.add_vertex(Vec3d((double)u, (double)((u * 7) % 5), (double)((u * 3) % 11))); }
  std::vector<VertexHandle> live_v() const { std::vector<VertexHandle> r; for (auto v : m.vertices()) r.push_back(v); return r; }
  // oriented live tets in vertex uids, from the definitions: first halfface cycle + remaining vertex
  Tet tet_of(CellHandle c) const {
    const auto &hfs = m.cell(c).halffaces();
    std::vector<int> f;
    for (auto he : HH(hfs[0])) f.push_back(uid(m.halfedge(he).from_vertex()));
    int apex = -1;
    for (size_t k = 1; k < hfs.size() && apex < 0; ++k)
      for (auto he : HH(hfs[k])) { int u = uid(m.halfedge(he).from_vertex()); if (u != f[0] && u != f[1] && u != f[2]) apex = u; }
    return Tet{f[0], f[1], f[2], apex};
  }
  std::multiset<Tet> tets() const { std::multiset<Tet> r; for (auto c : m.cells()) r.insert(canon(tet_of(c))); return r; }
  std::set<int> vertex_uids() const { std::set<int> r; for (auto v : m.vertices()) r.insert(uid(v)); return r; }
  // oriented triangles (as rotations-normalised triples) used by live cells
  static std::array<int, 3> rot(std::array<int, 3> t) { while (t[0] > t[1] || t[0] > t[2]) t = {t[1], t[2], t[0]}; return t; }
  std::set<std::array<int, 3>> used_halffaces() const {
    std::set<std::array<int, 3>> r;
    for (auto c : m.cells())
      for (auto hf : m.cell(c).halffaces()) {
        std::array<int, 3> t{};
        int i = 0;
        for (auto he : HH(hf)) t[(size_t)i++] = uid(m.halfedge(he).from_vertex());
        r.insert(rot(t));
      }
    return r;
  }
  static std::array<std::array<int, 3>, 4> faces_of(const Tet &t) {
    return {{rot({t[0], t[1], t[2]}), rot({t[0], t[2], t[3]}), rot({t[0], t[3], t[1]}), rot({t[1], t[3], t[2]})}};
  }
  bool setfail(const std::string &s) { if (fail.empty()) fail = s; return false; }

  // ---- shape invariants + per-cell query contracts -----------------------------------
  bool check_all(const std::string &after) {
    std::ostringstream o;
    for (auto f : m.faces()) if (m.valence(f) != 3) { o << "after " << after << ": face " << f.idx() << " has " << m.valence(f) << " edges"; return setfail(o.str()); }
    for (auto c : m.cells()) {
      if (m.valence(c) != 4) { o << "after " << after << ": cell " << c.idx() << " has " << m.valence(c) << " faces"; return setfail(o.str()); }
      std::set<int> vs;
      for (auto hf : m.cell(c).halffaces()) for (auto he : HH(hf)) vs.insert(m.halfedge(he).from_vertex().idx());
      if (vs.size() != 4) { o << "after " << after << ": cell " << c.idx() << " has " << vs.size() << " distinct vertices"; return setfail(o.str()); }
    }
    C01Counters cc;
    std::string g = c01_check(m, cc);
    if (!g.empty()) { if (st) st->count("discarded_prereq_C01"); fail = "PREREQ " + g; return false; }
    for (auto c : m.cells()) if (!check_cell(c, after)) return false;
    return true;
  }

  template <TT::HalfEdgeLabel L> bool chk_hel(const TT &tt, std::ostringstream &o) {
    HalfEdgeHandle h = tt.heh<L>();
    ++label_checks;
    if (m.from_vertex_handle(h) != tt.vh<TT::hel_from<L>()>() || m.to_vertex_handle(h) != tt.vh<TT::hel_to<L>()>()) { o << "TetTopology halfedge label " << (int)L << " does not join its two labelled vertices"; return false; }
    auto lb = tt.get_label(h);
    if (!lb || *lb != L) { o << "TetTopology::get_label(heh<" << (int)L << ">) does not return that label"; return false; }
    return true;
  }
  template <TT::HalfFaceLabel L> bool chk_hfl(const TT &tt, CellHandle c, std::ostringstream &o) {
    ++label_checks;
    HalfFaceHandle h = tt.hfh<L>();
    HalfFaceHandle in = TT::is_inner(L) ? h : h.opposite_handle();
    const auto &chf = m.cell(c).halffaces();
    if (std::find(chf.begin(), chf.end(), in) == chf.end()) { o << "TetTopology halfface label " << (int)L << ": " << (TT::is_inner(L) ? "" : "the opposite of ") << "halfface " << h.idx() << " is not a halfface of the cell"; return false; }
    if constexpr (TT::has_start(L)) {
      std::vector<int> lab{tt.vh<TT::hfl_vl<L, 0>()>().idx(), tt.vh<TT::hfl_vl<L, 1>()>().idx(), tt.vh<TT::hfl_vl<L, 2>()>().idx()};
      std::vector<int> cyc;
      for (auto v : m.halfface_vertices(h)) cyc.push_back(v.idx());
      if (!is_rotation(cyc, lab)) { o << "TetTopology halfface label " << (int)L << ": halfface " << h.idx() << " has vertex cycle " << vec_str(cyc) << ", labelled vertices are " << vec_str(lab); return false; }
      auto lb = tt.get_label(h, tt.vh<TT::hfl_vl<L, 0>()>());
      if (!lb || *lb != L) { o << "TetTopology::get_label(hfh<" << (int)L << ">, first vertex) does not return that label"; return false; }
      TriangleTopology tri = tt.triangle_topology<L>();
      TriangleTopology ref(m, h, tt.vh<TT::hfl_vl<L, 0>()>());
      if (!(tri == ref) || tri.a().idx() != lab[0] || tri.b().idx() != lab[1] || tri.c().idx() != lab[2] || m.from_vertex_handle(tri.ab()) != tri.a() ||
          m.to_vertex_handle(tri.ab()) != tri.b() || m.from_vertex_handle(tri.bc()) != tri.b() || m.from_vertex_handle(tri.ca()) != tri.c() || m.to_vertex_handle(tri.ca()) != tri.a()) {
        o << "TriangleTopology for halfface label " << (int)L << " is inconsistent with the mesh"; return false; }
      TriangleTopology dyn = tt.triangle_topology(L);
      if (!(dyn == tri)) { o << "dynamic triangle_topology(" << (int)L << ") differs from the static one"; return false; }
    } else {
      // OppX: the halfface not containing X
      constexpr TT::VertexLabel X = static_cast<TT::VertexLabel>((L & 15) >> 2);
      for (auto v : m.halfface_vertices(in)) if (v == tt.vh<X>()) { o << "TetTopology label Opp" << (int)X << " names a halfface containing that vertex"; return false; }
      auto lb = tt.get_label(h);
      if (!lb || *lb != L) { o << "TetTopology::get_label(hfh<" << (int)L << ">) does not return that label"; return false; }
    }
    return true;
  }
  template <size_t... I> bool chk_all_hel(const TT &tt, std::ostringstream &o, std::index_sequence<I...>) {
    return (chk_hel<static_cast<TT::HalfEdgeLabel>((I % 6) + 8 * (I / 6))>(tt, o) && ...);
  }
  template <size_t... I> bool chk_all_hfl(const TT &tt, CellHandle c, std::ostringstream &o, std::index_sequence<I...>) {
    return (chk_hfl<static_cast<TT::HalfFaceLabel>(I)>(tt, c, o) && ...);
  }
  bool check_topology(const TT &tt, CellHandle c, std::ostringstream &o) {
    std::set<int> vs{tt.a().idx(), tt.b().idx(), tt.c().idx(), tt.d().idx()};
    std::set<int> cv;
    for (auto v : m.cell_vertices(c)) cv.insert(v.idx());
    if (vs.size() != 4 || vs != cv) { o << "TetTopology vertices are not the four distinct vertices of the cell"; return false; }
    if (tt.get_label(tt.a()) != TT::A || tt.get_label(tt.b()) != TT::B || tt.get_label(tt.c()) != TT::C || tt.get_label(tt.d()) != TT::D) { o << "TetTopology::get_label(VH) does not invert vh<>()"; return false; }
    return chk_all_hel(tt, o, std::make_index_sequence<12>()) && chk_all_hfl(tt, c, o, std::make_index_sequence<32>());
  }

  bool check_cell(CellHandle c, const std::string &after) {
    ++cell_checks;
    std::ostringstream o;
    o << "after " << after << ": cell " << c.idx() << ": ";
    const auto &hfs = m.cell(c).halffaces();
    std::set<int> cv;
    for (auto hf : hfs) for (auto v : m.halfface_vertices(hf)) cv.insert(v.idx());
    auto as_ints = [](const std::vector<VertexHandle> &v) { std::vector<int> r; for (auto x : v) r.push_back(x.idx()); return r; };
    auto cyc_of = [&](HalfFaceHandle hf) { std::vector<int> r; for (auto v : m.halfface_vertices(hf)) r.push_back(v.idx()); return r; };
    // (1) get_cell_vertices(ch): first halfface's cycle from its first halfedge, then the apex
    {
      auto r = as_ints(m.get_cell_vertices(c));
      auto f = cyc_of(hfs[0]);
      if (r.size() != 4 || std::vector<int>(r.begin(), r.begin() + 3) != f || f.size() != 3 || !cv.count(r[3]) || std::count(f.begin(), f.end(), r[3])) {
        o << "get_cell_vertices(ch) = " << vec_str(r) << ", first halfface cycle " << vec_str(f); return setfail(o.str()); }
      std::vector<int> tv;
      for (auto v : m.tet_vertices(c)) tv.push_back(v.idx());
      if (tv != r) { o << "tet vertex iterator yields " << vec_str(tv) << ", get_cell_vertices(ch) " << vec_str(r); return setfail(o.str()); }
      C05Ctx cx;
      cx.walk = {1, 1, -1, 1, 1, 1, -1, -1, 1, 1, 1, 1, 1, 1, 1, 1, 1};
      std::string pr = circ_protocol("tet_vertices", c.idx(), [&](int L) { return m.tet_vertices(c, L); }, r, CM_EXACT, cx);
      if (!pr.empty()) { o << pr; return setfail(o.str()); }
    }
    for (auto hf : hfs) {
      auto f = cyc_of(hf);
      // (2) get_cell_vertices(hfh)
      auto r = as_ints(m.get_cell_vertices(hf));
      if (r.size() != 4 || std::vector<int>(r.begin(), r.begin() + 3) != f || !cv.count(r[3]) || std::count(f.begin(), f.end(), r[3])) { o << "get_cell_vertices(hfh " << hf.idx() << ") = " << vec_str(r) << ", halfface cycle " << vec_str(f); return setfail(o.str()); }
      int apex = r[3];
      // (3) get_cell_vertices(hfh, heh): starts at the halfedge's source, halfface's cyclic order, then apex
      size_t k = 0;
      for (auto he : HH(hf)) {
        auto q = as_ints(m.get_cell_vertices(hf, he));
        std::vector<int> exp{f[k % 3], f[(k + 1) % 3], f[(k + 2) % 3], apex};
        if (q != exp) { o << "get_cell_vertices(hfh " << hf.idx() << ", heh " << he.idx() << ") = " << vec_str(q) << ", expected " << vec_str(exp); return setfail(o.str()); }
        ++k;
      }
      // opposite vertex / opposite halfface are mutually inverse
      VertexHandle ov = m.halfface_opposite_vertex(hf);
      if (ov.idx() != apex) { o << "halfface_opposite_vertex(" << hf.idx() << ") = " << ov.idx() << ", the vertex not on the halfface is " << apex; return setfail(o.str()); }
      if (m.vertex_opposite_halfface(c, ov) != hf) { o << "vertex_opposite_halfface(cell, halfface_opposite_vertex(" << hf.idx() << ")) = " << m.vertex_opposite_halfface(c, ov).idx(); return setfail(o.str()); }
      HalfFaceHandle opp = hf.opposite_handle();
      if (m.incident_cell(opp).is_valid()) { if (m.halfface_opposite_vertex(opp).idx() == apex && false) return false; }
      else if (m.halfface_opposite_vertex(opp).is_valid()) { o << "halfface_opposite_vertex of a boundary halfface is valid"; return setfail(o.str()); }
    }
    // (4) get_cell_vertices(ch, vh)
    for (int v : cv) {
      auto r = as_ints(m.get_cell_vertices(c, VertexHandle(v)));
      std::set<int> rs(r.begin(), r.end());
      bool ok = r.size() == 4 && rs == cv && r[0] == v;
      bool rotation_of_some = false;
      if (ok) for (auto hf : hfs) if (is_rotation(cyc_of(hf), std::vector<int>(r.begin(), r.begin() + 3))) rotation_of_some = true;
      auto f0 = cyc_of(hfs[0]);
      bool on_first = std::count(f0.begin(), f0.end(), v) > 0;
      if (ok && on_first && !is_rotation(f0, std::vector<int>(r.begin(), r.begin() + 3))) ok = false;  // start on the first halfface: its own cycle
      if (!ok || !rotation_of_some) { o << "get_cell_vertices(ch, vh " << v << ") = " << vec_str(r) << " is not (start, halfface cycle, remaining vertex)"; return setfail(o.str()); }
      HalfFaceHandle oh = m.vertex_opposite_halfface(c, VertexHandle(v));
      if (!oh.is_valid() || m.halfface_opposite_vertex(oh).idx() != v) { o << "halfface_opposite_vertex(vertex_opposite_halfface(cell, " << v << ")) != that vertex"; return setfail(o.str()); }
    }
    // (5) TetTopology for every (halfface, start vertex) choice and the other constructors
    for (auto hf : hfs) {
      for (auto v : m.halfface_vertices(hf)) {
        TT tt(m, c, hf, v);
        std::ostringstream oo;
        if (tt.a() != v || tt.abc() != hf) { o << "TetTopology(ch, hfh " << hf.idx() << ", vh " << v.idx() << ") does not start at the requested halfface/vertex"; return setfail(o.str()); }
        if (!check_topology(tt, c, oo)) { o << "TetTopology(ch, hfh " << hf.idx() << ", vh " << v.idx() << "): " << oo.str(); return setfail(o.str()); }
        TT t2(m, hf, v);
        if (!(t2 == tt)) { o << "TetTopology(hfh, vh) differs from TetTopology(ch, hfh, vh)"; return setfail(o.str()); }
      }
      TT t3(m, c, hf);
      std::ostringstream oo;
      if (!check_topology(t3, c, oo)) { o << "TetTopology(ch, hfh " << hf.idx() << "): " << oo.str(); return setfail(o.str()); }
    }
    for (int v : cv) {
      TT t4(m, c, VertexHandle(v));
      std::ostringstream oo;
      if (t4.a().idx() != v || !check_topology(t4, c, oo)) { o << "TetTopology(ch, vh " << v << "): " << oo.str(); return setfail(o.str()); }
    }
    {
      TT t5(m, c);
      std::ostringstream oo;
      if (!check_topology(t5, c, oo)) { o << "TetTopology(ch): " << oo.str(); return setfail(o.str()); }
    }
    return true;
  }

  // ---- link condition on the simplicial complex of the live mesh (vertex uids) ----------
  bool link_condition(int a, int b) const {
    std::set<std::vector<int>> simp;
    auto add = [&](std::vector<int> s) { std::sort(s.begin(), s.end()); simp.insert(s); };
    for (auto v : m.vertices()) add({uid(v)});
    for (auto e : m.edges()) add({uid(m.edge(e).from_vertex()), uid(m.edge(e).to_vertex())});
    for (auto f : m.faces()) { std::vector<int> s; for (auto he : m.face(f).halfedges()) s.push_back(uid(m.halfedge(he).from_vertex())); add(s); }
    for (auto c : m.cells()) { Tet t = tet_of(c); add({t[0], t[1], t[2], t[3]}); }
    auto link = [&](std::vector<int> base) {
      std::set<std::vector<int>> r;
      std::sort(base.begin(), base.end());
      for (auto &s : simp) {
        if (s.size() <= base.size() || !std::includes(s.begin(), s.end(), base.begin(), base.end())) continue;
        std::vector<int> rest;
        std::set_difference(s.begin(), s.end(), base.begin(), base.end(), std::back_inserter(rest));
        r.insert(rest);
      }
      return r;
    };
    auto la = link({a}), lb = link({b}), lab = link({a, b});
    std::set<std::vector<int>> inter;
    for (auto &s : la) if (lb.count(s)) inter.insert(s);
    return inter == lab;
  }
};

vf::CaseResult run_case(const std::string &id, const Program &prog, Stats &st) {
  CaseResult res;
  TetState S;
  S.st = &st;
  if (!prog.empty()) { S.m.enable_deferred_deletion(prog[0].a[4] & 1); S.m.enable_fast_deletion(prog[0].a[4] & 2); }
  auto cprop = S.m.request_cell_property<int>("tetkey", -1);
  auto vprop = S.m.request_vertex_property<int>("vuid", -1);
  for (int i = 0; i < 4; ++i) { auto v = S.add_vertex(); vprop[v] = S.uid(v); }
  auto pickv = [&](int a) { auto l = S.live_v(); return l[(size_t)a % l.size()]; };
  auto key_of = [&](const Tet &t) { Tet c = canon(t); return ((c[0] * 131 + c[1]) * 131 + c[2]) * 131 + c[3]; };
  auto try_add = [&](std::vector<VertexHandle> vs, int variant, bool check, std::string &annot) -> bool {
    for (size_t i = 0; i < 4; ++i) for (size_t j = i + 1; j < 4; ++j) if (vs[i] == vs[j]) { st.count("skip:repeated_vertex"); return true; }
    Tet t{S.uid(vs[0]), S.uid(vs[1]), S.uid(vs[2]), S.uid(vs[3])};
    auto used = S.used_halffaces();
    bool occupied = false;
    for (auto &f : TetState::faces_of(t)) if (used.count(f)) occupied = true;
    // only add_cell(vector<VertexHandle>, check=true) refuses an occupied halfface; every other form would put two
    // live cells on one halfface (outside the domain of the properties): skipped, counted
    if (occupied && !(check && variant == 1)) { st.count("skip:halfface_occupied"); return true; }
    auto before = S.tets();
    size_t nc = S.m.n_cells();
    CellHandle c = variant == 0 ? S.m.add_cell(vs[0], vs[1], vs[2], vs[3], check) : S.m.add_cell(vs, check);
    std::ostringstream o;
    o << "add_cell(" << t[0] << "," << t[1] << "," << t[2] << "," << t[3] << (check ? ",check" : "") << ")" << (variant ? "[vector]" : "");
    annot = o.str();
    if (occupied) {
      ++S.rejected;
      if (c.is_valid()) { st.count("occupied_halfface_accepted_case_abandoned"); S.fail = "PREREQ domain left"; return false; }
      if (S.m.n_cells() != nc || S.tets() != before) return S.setfail(annot + ": rejected add changed the cells");
    } else {
      if (!c.is_valid()) return S.setfail(annot + ": valid tetrahedron rejected");
      before.insert(canon(t));
      if (S.tets() != before) return S.setfail(annot + ": cells afterwards are not the former cells plus the new oriented tet");
      cprop[c] = key_of(t);
    }
    return true;
  };

  for (size_t i = 0; i < prog.size() && S.fail.empty(); ++i) {
    const Op &op = prog[i];
    const int *a = op.a;
    std::string annot = optable()[(size_t)op.code].name;
    st.count(std::string("op:") + optable()[(size_t)op.code].name);
    switch (op.code) {
    case T_ADD_VERTEX: if (S.m.n_logical_vertices() < 24) { auto v = S.add_vertex(); vprop[v] = S.uid(v); } break;
    case T_ADD_TET: case T_ADD_TET_VEC: try_add({pickv(a[0]), pickv(a[1]), pickv(a[2]), pickv(a[3])}, op.code == T_ADD_TET ? 0 : 1, a[4] & 1, annot); break;
    case T_GLUE: {  // new tet on the outside of a boundary halfface whose opposite has a cell
      std::vector<HalfFaceHandle> bnd;
      for (auto hf : S.m.halffaces()) if (!S.m.incident_cell(hf).is_valid() && S.m.incident_cell(hf.opposite_handle()).is_valid()) bnd.push_back(hf);
      if (bnd.empty()) { st.count("skip:no_boundary_halfface"); break; }
      HalfFaceHandle hf = bnd[(size_t)a[0] % bnd.size()];
      std::vector<VertexHandle> f;
      for (auto v : S.m.halfface_vertices(hf)) f.push_back(v);
      VertexHandle apex = (a[1] % 3 == 0 || S.m.n_logical_vertices() >= 24) ? pickv(a[2]) : S.add_vertex();
      vprop[apex] = S.uid(apex);
      if (std::find(f.begin(), f.end(), apex) != f.end()) { st.count("skip:apex_on_face"); break; }
      // the new cell must contain hf itself: first halfface (v0,v1,v2) of add_cell(v0,v1,v2,v3)
      try_add({f[0], f[1], f[2], apex}, a[1] & 1, (a[1] >> 1) & 1, annot);
      break;
    }
    case T_RING: {  // k tets around edge (A,B), generated insertion order, closed or open
      int k = 3 + a[0] % 3;
      bool closed = a[1] % 3 != 0;
      VertexHandle A = pickv(a[2]), B = pickv(a[3]);
      if (A == B) { st.count("skip:repeated_vertex"); break; }
      std::vector<VertexHandle> ring;
      for (int j = 0; j < k + (closed ? 0 : 1); ++j) { auto v = S.add_vertex(); vprop[v] = S.uid(v); ring.push_back(v); }
      std::vector<int> order;
      for (int j = 0; j < k; ++j) order.push_back(j);
      for (int j = k - 1; j > 0; --j) std::swap(order[(size_t)j], order[(size_t)((a[1] * 31 + j * 17) % (j + 1))]);
      for (int j : order) { std::string an; if (!try_add({A, B, ring[(size_t)j], ring[(size_t)(j + 1) % ring.size()]}, j & 1, false, an)) break; annot += " " + an; }
      break;
    }
    case T_STAR: {  // closed star of a fresh interior vertex over an octahedron-like cap: 4 tets sharing edge (c, n)
      VertexHandle c = S.add_vertex(), n = S.add_vertex();
      vprop[c] = S.uid(c); vprop[n] = S.uid(n);
      std::vector<VertexHandle> r;
      for (int j = 0; j < 3; ++j) { auto v = (a[0] >> j) & 1 ? pickv(a[1] + j) : S.add_vertex(); vprop[v] = S.uid(v); if (std::find(r.begin(), r.end(), v) == r.end() && v != c && v != n) r.push_back(v); }
      if (r.size() < 3) { st.count("skip:repeated_vertex"); break; }
      for (int j = 0; j < 3; ++j) { std::string an; if (!try_add({c, n, r[(size_t)j], r[(size_t)(j + 1) % 3]}, 0, false, an)) break; annot += " " + an; }
      break;
    }
    case T_BAD_ADD: {  // wrong valence: must be rejected, nothing may change
      auto before = S.tets();
      size_t nf = S.m.n_faces(), nc = S.m.n_cells(), ne = S.m.n_edges();
      ++S.rejected;
      if (a[0] % 4 == 3) {
        // closed halfedge loop of the wrong length (2, 4 or 5) through the halfedge-list overload, with and without check
        int k = (a[2] & 1) ? 4 + ((a[2] >> 2) & 1) : 2;
        std::vector<VertexHandle> vs;
        for (int j = 0; j < k; ++j) vs.push_back(pickv(a[1] + j));
        std::set<int> d; for (auto v : vs) d.insert(v.idx());
        if (d.size() != vs.size()) break;
        std::vector<HalfEdgeHandle> hes;
        for (int j = 0; j < k; ++j) {
          VertexHandle x = vs[(size_t)j], y = vs[(size_t)(j + 1) % (size_t)k];
          EdgeHandle e = S.m.add_edge(x, y);
          hes.push_back(S.m.halfedge_handle(e, S.m.edge(e).from_vertex() == x ? 0 : 1));
        }
        ne = S.m.n_edges();
        if (S.m.add_face(hes, a[2] & 2).is_valid()) S.setfail("add_face with a closed loop of " + std::to_string(k) + " halfedges accepted by the tetrahedral kernel");
        annot = "add_face(halfedge loop of wrong valence)";
      } else if (a[0] % 4 == 0) {
        std::vector<VertexHandle> vs{pickv(a[1]), pickv(a[1] + 1)};
        if (a[2] & 1) { vs.push_back(pickv(a[1] + 2)); vs.push_back(pickv(a[1] + 3)); }
        std::set<int> d; for (auto v : vs) d.insert(v.idx());
        if (d.size() != vs.size()) break;
        if (S.m.add_face(vs).is_valid()) S.setfail("add_face with " + std::to_string(vs.size()) + " vertices accepted by the tetrahedral kernel");
        annot = "add_face(vertices of wrong valence)";
      } else if (a[0] % 4 == 1) {
        std::vector<VertexHandle> vs;
        for (int j = 0; j < 3 + 2 * (a[2] & 1); ++j) vs.push_back(pickv(a[1] + j));
        if (S.m.add_cell(vs, a[2] & 2).is_valid()) S.setfail("add_cell with " + std::to_string(vs.size()) + " vertices accepted by the tetrahedral kernel");
        annot = "add_cell(vertex list of wrong length)";
      } else if (S.m.n_faces() >= 3) {
        std::vector<HalfFaceHandle> hfs;
        for (int j = 0; j < 3 + 2 * (a[2] & 1); ++j) { FaceHandle f((int)((size_t)(a[1] + j) % S.m.n_faces())); if (!S.m.is_deleted(f)) hfs.push_back(S.m.halfface_handle(f, 0)); }
        if (hfs.size() != 4 && S.m.add_cell(hfs, true).is_valid()) S.setfail("add_cell with " + std::to_string(hfs.size()) + " halffaces accepted by the tetrahedral kernel");
        annot = "add_cell(halfface list of wrong length)";
      }
      if (S.fail.empty() && (S.m.n_faces() != nf || S.m.n_cells() != nc || S.m.n_edges() != ne || S.tets() != before)) S.setfail(annot + ": rejected call changed the mesh");
      break;
    }
    case T_DEL_V: if (S.m.n_logical_vertices() > 4) { auto v = pickv(a[0]); int u = S.uid(v); auto exp = S.tets(); for (auto it = exp.begin(); it != exp.end();) it = std::count(it->begin(), it->end(), u) ? exp.erase(it) : std::next(it); S.m.delete_vertex(v); if (S.tets() != exp) S.setfail("delete_vertex: surviving cells are not exactly those without the vertex"); } break;
    case T_DEL_C: { std::vector<CellHandle> l; for (auto c : S.m.cells()) l.push_back(c); if (!l.empty()) S.m.delete_cell(l[(size_t)a[0] % l.size()]); break; }
    case T_DEL_F: { std::vector<FaceHandle> l; for (auto f : S.m.faces()) l.push_back(f); if (!l.empty()) S.m.delete_face(l[(size_t)a[0] % l.size()]); break; }
    case T_DEL_E: { std::vector<EdgeHandle> l; for (auto e : S.m.edges()) l.push_back(e); if (!l.empty()) S.m.delete_edge(l[(size_t)a[0] % l.size()]); break; }
    case T_GC: S.m.collect_garbage(); break;
    case T_DEFERRED: S.m.enable_deferred_deletion(a[0] & 1); break;
    case T_FAST: S.m.enable_fast_deletion(a[0] & 1); break;
    case T_COLLAPSE: {
      std::vector<HalfEdgeHandle> cand;
      for (auto he : S.m.halfedges()) cand.push_back(he);
      if (cand.empty()) break;
      // prefer interior edges: start the search at a generated position
      HalfEdgeHandle he = cand[(size_t)a[0] % cand.size()];
      bool found = false;
      for (size_t t = 0; t < cand.size() && t < 40 && !found; ++t) {
        he = cand[((size_t)a[0] + t * (1 + (size_t)a[1] % 5)) % cand.size()];
        int ua = S.uid(S.m.from_vertex_handle(he)), ub = S.uid(S.m.to_vertex_handle(he));
        if (ua != ub && S.link_condition(ua, ub)) found = true;
      }
      if (!found) { st.count("skip:no_collapsible_edge"); break; }
      int ua = S.uid(S.m.from_vertex_handle(he)), ub = S.uid(S.m.to_vertex_handle(he));
      bool interior = !S.m.is_boundary(he.edge_handle());
      std::multiset<Tet> exp;
      std::multiset<int> expkeys;
      size_t containing_a = 0;
      for (auto c : S.m.cells()) {
        Tet t = S.tet_of(c);
        bool ha = std::count(t.begin(), t.end(), ua), hb = std::count(t.begin(), t.end(), ub);
        if (ha && hb) continue;
        if (ha) ++containing_a;
        int oldkey = cprop[c];
        for (auto &x : t) if (x == ua) x = ub;
        exp.insert(canon(t));
        expkeys.insert(oldkey);
      }
      auto vexp = S.vertex_uids();
      vexp.erase(ua);
      std::ostringstream o;
      o << "collapse_edge(" << ua << "->" << ub << ")" << (interior ? " interior" : " boundary") << " mode " << (S.m.deferred_deletion_enabled() ? "deferred" : "immediate") << (S.m.fast_deletion_enabled() ? "+fast" : "");
      annot = o.str();
      VertexHandle r = S.m.collapse_edge(he);
      ++S.collapses;
      if (interior) ++S.interior_collapses;
      if (containing_a > 0) ++S.merging_collapses;
      if (!S.m.is_valid(r) || S.m.is_deleted(r) || S.uid(r) != ub) { S.setfail(annot + ": returned handle " + std::to_string(r.idx()) + " does not designate the surviving vertex"); break; }
      if (S.vertex_uids() != vexp) { S.setfail(annot + ": live vertices afterwards are not the former ones minus the collapsed vertex"); break; }
      if (S.tets() != exp) { S.setfail(annot + ": cells afterwards are not the former cells without both endpoints, with a replaced by b and orientation preserved"); break; }
      // C03 for collapse: cell / vertex property values follow their entities
      std::multiset<int> gotkeys;
      for (auto c : S.m.cells()) gotkeys.insert(cprop[c]);
      if (gotkeys != expkeys) { S.fail = "PREREQ-C03 " + annot + ": cell property values did not follow the surviving cells"; break; }
      for (auto v : S.m.vertices()) if (vprop[v] != S.uid(v)) { S.fail = "PREREQ-C03 " + annot + ": vertex property values did not follow their vertices"; break; }
      if (cprop.size() != S.m.n_cells() || vprop.size() != S.m.n_vertices()) S.fail = "PREREQ-C03 " + annot + ": property size differs from the entity count";
      // keys are recomputed so that later collapses can be judged again
      for (auto c : S.m.cells()) cprop[c] = key_of(S.tet_of(c));
      break;
    }
    default: break;
    }
    res.annot.push_back(annot);
    if (S.fail.empty()) S.check_all(annot);
  }
  st.count("cell_checks", S.cell_checks); st.count("label_checks", S.label_checks); st.count("collapses", S.collapses);
  st.count("interior_collapses", S.interior_collapses); st.count("collapses_rebuilding_cells", S.merging_collapses); st.count("rejected_adds", S.rejected);
  res.nontrivial = S.m.n_logical_cells() >= 3 || S.collapses > 0;
  if (!S.fail.empty()) {
    if (S.fail.rfind("PREREQ", 0) == 0) {
      bool c03 = S.fail.rfind("PREREQ-C03", 0) == 0;
      if (id == "C03" && c03) { res.ok = false; res.msg = oneline(S.fail.substr(11)); }
      else st.count(c03 ? "discarded_prereq_C03" : "discarded_prereq_C01");
    } else if (id == "C15") { res.ok = false; res.msg = oneline(S.fail); }
    // run under C11 (construction validates, tetrahedral kernel): only the acceptance / rejection verdicts count
    else if (id == "C11" && (S.fail.find("accepted by the tetrahedral kernel") != std::string::npos || S.fail.find("rejected call changed the mesh") != std::string::npos ||
                             S.fail.find("rejected add changed the cells") != std::string::npos || S.fail.find("valid tetrahedron rejected") != std::string::npos ||
                             S.fail.find("cells afterwards are not the former cells plus") != std::string::npos)) { res.ok = false; res.msg = oneline(S.fail); }
    else st.count("discarded_owner_C15");
  }
  return res;
}

}  // namespace target

VF_DEFINE_MAIN
