// Mesh / property generation shared by the OVMB targets (C06, C18, C07 seeds).
#pragma once
#include "interp.hh"
#include "io_common.hh"

namespace target {
using namespace vf;
using namespace vfio;

struct IoStats {
  uint64_t variants = 0, reads = 0, pending_checked = 0, boundary = 0, cross_type_reads = 0;
};

template <class M> std::string pending_check(M &m, IoStats &is) {
  // (5) a mesh with pending deletions is refused or written as its logical content
  ++is.pending_checked;
  Bytes bytes;
  std::string w = write_ovmb_bytes([&](std::ostream &s) { return IO::ovmb_write(s, m); }, bytes);
  if (!w.empty()) return "";  // refused
  M back;
  auto rr = read_ovmb_bytes(bytes, back, false, true);
  if (rr != IO::ReadResult::Ok) return "a mesh with pending deletions was written (result Ok) as a file that cannot be read back";
  if (back.n_vertices() != m.n_logical_vertices() || back.n_edges() != m.n_logical_edges() || back.n_faces() != m.n_logical_faces() || back.n_cells() != m.n_logical_cells())
    return "a mesh with pending deletions was written (result Ok) as a file that reads back as a different mesh";
  return "";
}

// simple tet / hex builders driven by the same op list
template <class M, class Pend> void build_simplicial(M &m, const Program &prog, bool hex, bool &pending_seen, std::string &fail, IoStats &is, Pend pend) {
  using Vec = typename M::PointT;
  int vcount = 0;
  auto addv = [&]() { ++vcount; return m.add_vertex(Vec((double)vcount, (double)((vcount * 7) % 5) + 0.5, (double)((vcount * 3) % 11))); };
  for (int i = 0; i < (hex ? 8 : 4); ++i) addv();
  for (auto &op : prog) {
    size_t nv = m.n_vertices();
    auto pickv = [&](int a) { return VertexHandle((int)((size_t)a % nv)); };
    switch (op.code) {
    case O_ADD_VERTEX: case O_ADD_N_VERTICES: if (nv < 40) addv(); break;
    case O_ADD_CELL_TPL: case O_ADD_CONE: case O_ADD_RING: case O_ADD_FACE_V: case O_ADD_FACE_HE: {
      std::vector<VertexHandle> vs;
      int need = hex ? 8 : 4;
      for (int j = 0; j < need; ++j) {
        VertexHandle v = pickv(op.a[0] + j * (1 + op.a[1] % 3));
        if (m.is_deleted(v) || std::find(vs.begin(), vs.end(), v) != vs.end()) { if (nv + vs.size() < 48) v = addv(); else break; }
        vs.push_back(v);
      }
      if ((int)vs.size() == need) m.add_cell(vs, true);
      break;
    }
    case O_DEL_C: if (m.n_cells()) { CellHandle c((int)((size_t)op.a[0] % m.n_cells())); if (!m.is_deleted(c)) m.delete_cell(c); } break;
    case O_DEL_F: if (m.n_faces()) { FaceHandle f((int)((size_t)op.a[0] % m.n_faces())); if (!m.is_deleted(f)) m.delete_face(f); } break;
    case O_DEL_E: if (m.n_edges()) { EdgeHandle e((int)((size_t)op.a[0] % m.n_edges())); if (!m.is_deleted(e)) m.delete_edge(e); } break;
    case O_DEL_V: if (nv > 8) { VertexHandle v = pickv(op.a[0]); if (!m.is_deleted(v)) m.delete_vertex(v); } break;
    case O_GC: m.collect_garbage(); break;
    case O_EN_DEFERRED: m.enable_deferred_deletion(op.a[0] & 1); break;
    case O_EN_FAST: m.enable_fast_deletion(op.a[0] & 1); break;
    default: break;
    }
    if (m.needs_garbage_collection() && !pending_seen && fail.empty()) { pending_seen = true; fail = pend(m, is); }
  }
  m.enable_deferred_deletion(false);
}
template <class M> void build_simplicial(M &m, const Program &prog, bool hex, bool &pending_seen, std::string &fail, IoStats &is) {
  build_simplicial(m, prog, hex, pending_seen, fail, is, [](M &mm, IoStats &s) { return pending_check(mm, s); });
}

inline void bulk(PolyMesh &m, const Op &op, IoStats &is) {
  static const size_t vb[8] = {254, 255, 256, 257, 65534, 65535, 65536, 65537};
  static const size_t eb[6] = {127, 128, 129, 32767, 32768, 32769};
  size_t t;
  if (op.a[0] % 4 == 3) {
    // valence boundaries: one polygon with 254..257 halfedges and a cone over it (a cell with n+1 halffaces), so the
    // valence encodings chosen from the largest face / cell valence cross the 8-bit boundary
    static const size_t nb[4] = {254, 255, 256, 257};
    size_t n = nb[op.a[1] % 4];
    std::vector<VertexHandle> ring;
    for (size_t i = 0; i < n; ++i) ring.push_back(m.add_vertex(Vec3d(std::cos(6.283185307 * (double)i / (double)n), std::sin(6.283185307 * (double)i / (double)n), 50.0)));
    FaceHandle base = m.add_face(ring);
    if (op.a[2] % 2) {
      VertexHandle apex = m.add_vertex(Vec3d(0, 0, 51));
      std::vector<HalfFaceHandle> hfs{m.halfface_handle(base, 1)};
      for (size_t i = 0; i < n; ++i) hfs.push_back(m.halfface_handle(m.add_face(std::vector<VertexHandle>{ring[i], ring[(i + 1) % n], apex}), 0));
      m.add_cell(hfs, true);
    }
    ++is.boundary;
    return;
  }
  switch (op.a[0] % 3) {
  case 0:
    t = vb[op.a[1] % ((op.a[2] % 8 == 0) ? 8 : 4)];
    if (m.n_vertices() < t) m.add_n_vertices(t - m.n_vertices());
    break;
  case 1:
    t = eb[op.a[1] % ((op.a[2] % 8 == 0) ? 6 : 3)];
    if (m.n_vertices() < 2) m.add_n_vertices(2);
    for (size_t i = m.n_edges(); i < t; ++i) m.add_edge(VertexHandle((int)(i % m.n_vertices())), VertexHandle((int)((i + 1) % m.n_vertices())), true);
    break;
  default: {
    t = eb[op.a[1] % ((op.a[2] % 8 == 0) ? 6 : 3)];
    if (m.n_vertices() < 3) m.add_n_vertices(3);
    EdgeHandle e0 = m.add_edge(VertexHandle(0), VertexHandle(1), true), e1 = m.add_edge(VertexHandle(1), VertexHandle(2), true), e2 = m.add_edge(VertexHandle(2), VertexHandle(0), true);
    for (size_t i = m.n_faces(); i < t; ++i) m.add_face({m.halfedge_handle(e0, 0), m.halfedge_handle(e1, 0), m.halfedge_handle(e2, 0)}, false);
    break;
  }
  }
  // a tetrahedron on fresh vertices at the very end: its edges / faces / halffaces carry the highest indices,
  // so the handle widths chosen from the entity counts are exercised by real references across the boundary
  {
    VertexHandle v[4];
    for (auto &x : v) x = m.add_vertex(Vec3d((double)m.n_vertices(), 1.0, 2.0));
    HalfFaceHandle h0 = m.halfface_handle(m.add_face(std::vector<VertexHandle>{v[0], v[1], v[2]}), 0);
    HalfFaceHandle h1 = m.halfface_handle(m.add_face(std::vector<VertexHandle>{v[0], v[2], v[3]}), 0);
    HalfFaceHandle h2 = m.halfface_handle(m.add_face(std::vector<VertexHandle>{v[0], v[3], v[1]}), 0);
    HalfFaceHandle h3 = m.halfface_handle(m.add_face(std::vector<VertexHandle>{v[1], v[3], v[2]}), 0);
    m.add_cell({h0, h1, h2, h3}, true);
  }
  ++is.boundary;
}

template <class M> std::vector<IOProp> apply_prop_ops(M &m, const Program &prog, std::vector<std::string> &annot) {
  std::vector<IOProp> props;
  int counter = 0;
  for (size_t i = 0; i < prog.size(); ++i) {
    const Op &op = prog[i];
    if (op.code == O_PROP_CREATE && props.size() < 10) {
      std::string name = (op.a[3] % 5 == 0 ? std::string("we ird\tname \"q\" ") : std::string("p")) + std::to_string(counter++);
      props.push_back(make_io_prop_kt(m, op.a[0], op.a[1], name, op.a[2]));
      annot[i] = "persistent " + props.back().type_name + " property '" + name + "' on entity kind " + std::to_string(props.back().ent);
    } else if (op.code == O_PROP_WRITE && !props.empty()) {
      IOProp &p = props[(size_t)op.a[0] % props.size()];
      if (op.a[4] % 4 == 0) {  // a run of consecutive elements with one value (all-equal groups matter to bit-packed / run codecs)
        size_t len = 8 + (size_t)op.a[3] % 17, start = (size_t)op.a[1] % 24;
        for (size_t k = 0; k < len; ++k) if (start + k < p.size(m)) p.write(m, start + k, op.a[2]);
        annot[i] = "write a run of " + std::to_string(len) + " elements of '" + p.name + "' from " + std::to_string(start);
      } else {
        p.write(m, (size_t)op.a[1] * 7 + (size_t)op.a[3], op.a[2]);
        annot[i] = "write '" + p.name + "'";
      }
    }
  }
  return props;
}


}  // namespace target
