// Thin wrappers around the (compile-time heavy) ASCII FileManager template instantiations; one TU per mesh type.
#pragma once
#include <OpenVolumeMesh/Mesh/HexahedralMesh.hh>
#include <OpenVolumeMesh/Mesh/PolyhedralMesh.hh>
#include <OpenVolumeMesh/Mesh/TetrahedralMesh.hh>
#include <string>
namespace ascii_shim {
bool read_poly(const std::string &data, bool topo_check, bool bottom_up, OpenVolumeMesh::GeometricPolyhedralMeshV3d &m);
bool read_tet(const std::string &data, bool topo_check, bool bottom_up, OpenVolumeMesh::GeometricTetrahedralMeshV3d &m);
bool read_hex(const std::string &data, bool topo_check, bool bottom_up, OpenVolumeMesh::GeometricHexahedralMeshV3d &m);
// returns false if the stream is in a failed state after writing (= the writer refused / failed)
bool write_poly(const OpenVolumeMesh::GeometricPolyhedralMeshV3d &m, std::string &out);
bool write_tet(const OpenVolumeMesh::GeometricTetrahedralMeshV3d &m, std::string &out);
bool write_hex(const OpenVolumeMesh::GeometricHexahedralMeshV3d &m, std::string &out);
// file-name based interface (writeFile / readFile)
bool write_poly_file(const OpenVolumeMesh::GeometricPolyhedralMeshV3d &m, const std::string &path);
bool write_tet_file(const OpenVolumeMesh::GeometricTetrahedralMeshV3d &m, const std::string &path);
bool write_hex_file(const OpenVolumeMesh::GeometricHexahedralMeshV3d &m, const std::string &path);
bool read_poly_file(const std::string &path, bool topo_check, bool bottom_up, OpenVolumeMesh::GeometricPolyhedralMeshV3d &m);
bool read_tet_file(const std::string &path, bool topo_check, bool bottom_up, OpenVolumeMesh::GeometricTetrahedralMeshV3d &m);
bool read_hex_file(const std::string &path, bool topo_check, bool bottom_up, OpenVolumeMesh::GeometricHexahedralMeshV3d &m);
bool is_tet_file(const std::string &path);
bool is_hex_file(const std::string &path);
}  // namespace ascii_shim
