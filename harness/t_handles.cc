// C08 part 1: complete enumeration of the handle algebra over every index in [0, 2^30).
// usage: t_handles --out stats.json [--replay FILE]   (FILE holds one index)
#include <OpenVolumeMesh/Core/TopologyKernel.hh>
#include <atomic>
#include <cstdio>
#include <cstdlib>
#include <fstream>
#include <iostream>
#include <string>
#include <thread>
#include <vector>

using namespace OpenVolumeMesh;

static inline int opaque(int x) { asm volatile("" : "+r"(x)); return x; }  // result must be materialised, not proven

static const char *check_index(int i0) {
  const int i = opaque(i0);
  EdgeHandle e(i);
  FaceHandle f(i);
  for (int s = 0; s < 2; ++s) {
    const int he = opaque(TopologyKernel::halfedge_handle(e, (unsigned char)s).idx());
    if (he != 2 * i + s) return "halfedge_handle(EH,s) != 2*idx+s";
    if (opaque(e.halfedge_handle(s).idx()) != he) return "EH::halfedge_handle(s) != TopologyKernel::halfedge_handle";
    HalfEdgeHandle h(he);
    if (opaque(h.edge_handle().idx()) != i || opaque(TopologyKernel::edge_handle(h).idx()) != i) return "edge_handle(halfedge_handle(e,s)) != e";
    if (opaque(h.subidx()) != s) return "subidx() of halfedge_handle(e,s) != s";
    const int oh = opaque(TopologyKernel::opposite_halfedge_handle(h).idx());
    if (oh != (he ^ 1) || opaque(h.opposite_handle().idx()) != oh) return "opposite halfedge handle is not idx^1";
    HalfEdgeHandle o(oh);
    if (opaque(TopologyKernel::opposite_halfedge_handle(o).idx()) != he || opaque(o.opposite_handle().idx()) != he) return "opposite halfedge twice is not the identity";
    if (opaque(o.edge_handle().idx()) != i || opaque(o.subidx()) != 1 - s) return "opposite halfedge belongs to another edge / same side";
    if (opaque(TopologyKernel::halfedge_handle(EdgeHandle(opaque(TopologyKernel::edge_handle(h).idx())), (unsigned char)opaque(h.subidx())).idx()) != he)
      return "halfedge -> edge,subidx -> halfedge round trip";
    const int hf = opaque(TopologyKernel::halfface_handle(f, (unsigned char)s).idx());
    if (hf != 2 * i + s) return "halfface_handle(FH,s) != 2*idx+s";
    if (opaque(f.halfface_handle(s).idx()) != hf) return "FH::halfface_handle(s) != TopologyKernel::halfface_handle";
    HalfFaceHandle g(hf);
    if (opaque(g.face_handle().idx()) != i || opaque(TopologyKernel::face_handle(g).idx()) != i) return "face_handle(halfface_handle(f,s)) != f";
    if (opaque(g.subidx()) != s) return "subidx() of halfface_handle(f,s) != s";
    const int og = opaque(TopologyKernel::opposite_halfface_handle(g).idx());
    if (og != (hf ^ 1) || opaque(g.opposite_handle().idx()) != og) return "opposite halfface handle is not idx^1";
    HalfFaceHandle p(og);
    if (opaque(TopologyKernel::opposite_halfface_handle(p).idx()) != hf || opaque(p.opposite_handle().idx()) != hf) return "opposite halfface twice is not the identity";
    if (opaque(p.face_handle().idx()) != i || opaque(p.subidx()) != 1 - s) return "opposite halfface belongs to another face / same side";
    if (opaque(TopologyKernel::halfface_handle(FaceHandle(opaque(TopologyKernel::face_handle(g).idx())), (unsigned char)opaque(g.subidx())).idx()) != hf)
      return "halfface -> face,subidx -> halfface round trip";
  }
  if (!e.is_valid() || (int)opaque((int)e.uidx()) != i) return "EdgeHandle basic relations";
  return nullptr;
}

int main(int argc, char **argv) {
  std::string out, replay;
  for (int i = 1; i < argc; ++i) {
    std::string a = argv[i];
    if (a == "--out" && i + 1 < argc) out = argv[++i];
    if (a == "--replay" && i + 1 < argc) replay = argv[++i];
  }
  if (!replay.empty()) {
    std::ifstream in(replay);
    std::string tok;
    long idx = -1;
    while (in >> tok) if (tok == "index") in >> idx;
    const char *m = idx >= 0 ? check_index((int)idx) : "no index in replay file";
    if (m) { std::cout << "REPLAY-FAIL property=C08 : index " << idx << ": " << m << "\n"; return 1; }
    std::cout << "REPLAY-OK property=C08\n";
    return 0;
  }
  const long N = 1L << 30;
  unsigned nt = std::thread::hardware_concurrency();
  if (nt == 0) nt = 8;
  std::atomic<long> bad(-1);
  std::atomic<long> done(0);
  std::vector<std::thread> th;
  for (unsigned t = 0; t < nt; ++t)
    th.emplace_back([&, t]() {
      long lo = N / nt * t, hi = (t + 1 == nt) ? N : N / nt * (t + 1);
      long cnt = 0;
      for (long i = lo; i < hi; ++i) {
        if (check_index((int)i)) { long exp = -1; bad.compare_exchange_strong(exp, i); break; }
        ++cnt;
      }
      done += cnt;
    });
  for (auto &x : th) x.join();
  long b = bad.load();
  std::ofstream f(out);
  f << "{\"indices_checked\": " << done.load() << ", \"space\": " << N << ", \"exhaustive\": " << (b < 0 && done.load() == N ? "true" : "false")
    << ", \"bad_index\": " << b << ", \"message\": \"" << (b >= 0 ? check_index((int)b) : "") << "\"}\n";
  return b >= 0 ? 1 : 0;
}
