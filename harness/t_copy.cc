// C13: mesh copy construction and assignment are deep and leave the meshes independent.
#include "interp.hh"
#include "oracle_c01.hh"
#include "props.hh"
#include "snap.hh"
#include "rcmain.hh"
#include <OpenVolumeMesh/Mesh/HexahedralMesh.hh>
#include <OpenVolumeMesh/Mesh/TetrahedralMesh.hh>

using namespace vf;

namespace target {

const std::vector<OpInfo> &optable() { return poly_optable(); }

std::vector<std::pair<int, int>> weights(const std::string &) {
  return {{5, O_ADD_VERTEX}, {2, O_ADD_N_VERTICES}, {4, O_ADD_EDGE}, {6, O_ADD_FACE_V}, {3, O_ADD_FACE_HE}, {12, O_ADD_CELL_TPL}, {8, O_ADD_CONE},
          {2, O_SET_EDGE}, {1, O_SET_FACE}, {1, O_SET_CELL}, {3, O_DEL_V}, {3, O_DEL_E}, {3, O_DEL_F}, {4, O_DEL_C}, {1, O_SWAP_V}, {1, O_SWAP_E},
          {1, O_SWAP_F}, {1, O_SWAP_C}, {2, O_GC}, {1, O_CLEAR}, {1, O_EN_VBU}, {1, O_EN_EBU}, {1, O_EN_FBU}, {2, O_EN_DEFERRED}, {2, O_EN_FAST},
          {10, O_PROP_CREATE}, {10, O_PROP_WRITE}, {2, O_PROP_DROP}, {9, O_QUERY}};
}
static std::string oneline(std::string s) { for (auto &c : s) if (c == '\n' || c == '\r') c = ' '; return s; }

struct World {
  Interp I;
  PropBank bank;
  RawSnap last;  // snapshot after the last operation addressed to this world
  std::string modes_last;
  World() : bank(I) { I.add_sut("mesh"); }
  Sut &S() { return *I.suts[0]; }
};
static std::string modes_of(const PolyMesh &m) {
  std::ostringstream o;
  o << m.deferred_deletion_enabled() << m.fast_deletion_enabled() << m.has_vertex_bottom_up_incidences() << m.has_edge_bottom_up_incidences() << m.has_face_bottom_up_incidences() << m.needs_garbage_collection();
  return o.str();
}

vf::CaseResult run_case(const std::string &id, const Program &prog, Stats &st) {
  CaseResult res;
  std::vector<std::unique_ptr<World>> W;
  W.emplace_back(new World());
  W[0]->I.st = &st;
  size_t active = 0;
  std::string fail;
  uint64_t copies = 0, assigns = 0, indep_checks = 0, muts_after_copy[2] = {0, 0};
  bool had_both_kinds = false;
  if (!prog.empty()) { int m = prog[0].a[4]; auto &S = W[0]->S(); S.mesh.enable_deferred_deletion(m & 1); S.mesh.enable_fast_deletion(m & 2); S.deferred = m & 1; S.fast = m & 2; }
  auto snap_world = [&](World &w) { w.last = take_snap(w.S().mesh, &w.bank, 0); w.modes_last = modes_of(w.S().mesh); };
  snap_world(*W[0]);

  // property-level comparison of a fresh copy `dst` of `src`; rebuilds dst.bank from the persistent properties
  auto check_copied_props = [&](World &src, World &dst, const std::string &what) -> bool {
    bool pers = false, nonpers = false;
    dst.bank.slots.clear();
    for (auto &sp : src.bank.slots) {
      PropSlot &s = *sp;
      auto found = find_prop_kt(dst.S().mesh, s.kind, s.type, s.name);
      // persistent right now on the source (clear() may have made it private since its creation)
      bool still_pers = false;
      { auto again = find_prop_kt(src.S().mesh, s.kind, s.type, s.name); still_pers = again && again->persistent() && again->identity() == s.inst[0]->identity(); }
      if (still_pers) {
        pers = true;
        if (!found) { fail = what + ": persistent property '" + s.name + "' is missing on the copy"; return false; }
        if (found->size() != s.inst[0]->size()) { fail = what + ": persistent property '" + s.name + "' has " + std::to_string(found->size()) + " elements on the copy, " + std::to_string(s.inst[0]->size()) + " on the source"; return false; }
        for (size_t i = 0; i < found->size(); ++i) if (found->show(i) != s.inst[0]->show(i)) { fail = what + ": persistent property '" + s.name + "' element " + std::to_string(i) + " differs on the copy"; return false; }
        if (found->identity() == s.inst[0]->identity()) { fail = what + ": persistent property '" + s.name + "' shares its storage with the source"; return false; }
        std::unique_ptr<PropSlot> n(new PropSlot());
        n->kind = s.kind; n->type = s.type; n->flavour = 2; n->defcode = s.defcode; n->name = s.name; n->val = s.val; n->mesh_value_known = s.mesh_value_known;
        n->inst.push_back(std::move(found));
        dst.bank.slots.push_back(std::move(n));
      } else {
        nonpers = true;
        bool other_pers = false;  // a different, persistent property of that name exists on the source (handle was dropped earlier)
        { auto again = find_prop_kt(src.S().mesh, s.kind, s.type, s.name); other_pers = again && again->persistent(); }
        if (found && !other_pers) { fail = what + ": non-persistent property '" + s.name + "' was carried over to the copy"; return false; }
      }
    }
    dst.bank.counter = src.bank.counter + 100;
    if (pers && nonpers) had_both_kinds = true;
    return true;
  };
  auto check_equal_mesh = [&](World &src, World &dst, const std::string &what) -> bool {
    RawSnap a = take_snap(src.S().mesh, nullptr, 0), b = take_snap(dst.S().mesh, nullptr, 0);
    std::string d = snap_diff(a, b, true);
    if (!d.empty()) { fail = what + ": copy differs from the source: " + d; return false; }
    if (modes_of(src.S().mesh) != modes_of(dst.S().mesh)) { fail = what + ": deletion mode / bottom-up settings / pending-deletion state differ (deferred,fast,vbu,ebu,fbu,needs_gc) " + modes_of(dst.S().mesh) + " vs " + modes_of(src.S().mesh); return false; }
    if (src.S().mesh.n_logical_vertices() != dst.S().mesh.n_logical_vertices() || src.S().mesh.n_logical_cells() != dst.S().mesh.n_logical_cells()) { fail = what + ": logical counts differ"; return false; }
    return true;
  };
  auto clone_model = [&](World &src, World &dst) {
    dst.I.L = src.I.L; dst.I.pos = src.I.pos; dst.I.checked_face = src.I.checked_face;
    for (int k = 0; k < 4; ++k) dst.I.marks[k] = src.I.marks[k];
    Sut &a = src.S(), &b = dst.S();
    b.lay = a.lay; b.deferred = a.deferred; b.fast = a.fast; b.vbu = a.vbu; b.ebu = a.ebu; b.fbu = a.fbu;
    dst.I.st = src.I.st; dst.I.fail.clear(); dst.I.fail_owner.clear();
  };

  for (size_t i = 0; i < prog.size() && fail.empty(); ++i) {
    const Op &op = prog[i];
    World &A = *W[active];
    std::string annot;
    bool cont = true;
    st.count(std::string("op:") + optable()[(size_t)op.code].name);
    if (op.code == O_QUERY) {
      int variant = op.a[0] % 4;
      size_t target = (active + 1 + (size_t)(op.a[2] & 1)) % 3;
      if (variant == 0 || W.size() <= target || !W[target]) {  // copy construction into a new world
        std::unique_ptr<World> n(new World());
        n->S().mesh.~PolyMesh();
        new (&n->S().mesh) PolyMesh(A.S().mesh);  // the copy constructor under test
        clone_model(A, *n);
        annot = "copy-construct mesh #" + std::to_string(W.size() <= target ? W.size() : target) + " from mesh #" + std::to_string(active);
        ++copies;
        if (check_equal_mesh(A, *n, annot) && check_copied_props(A, *n, annot)) {
          snap_world(*n);
          if (W.size() <= target) W.push_back(std::move(n)); else W[target] = std::move(n);
        }
      } else if (variant == 3) {  // self assignment
        annot = "self-assign mesh #" + std::to_string(active);
        PolyMesh &m = A.S().mesh;
        m = *&m;
        RawSnap now = take_snap(m, &A.bank, 0);
        std::string d = snap_diff(A.last, now, true);
        if (!d.empty()) fail = annot + " changed the mesh: " + d;
        else { std::string pm = A.bank.check(A.S(), 0); if (!pm.empty()) fail = annot + ": " + pm; }
      } else {  // assignment into an existing mesh with its own history, properties and handles
        World &T = *W[target];
        annot = "assign mesh #" + std::to_string(target) + " = mesh #" + std::to_string(active);
        ++assigns;
        // handles the caller holds on the assigned-to mesh
        std::vector<std::unique_ptr<PropSlot>> old = std::move(T.bank.slots);
        T.bank.slots.clear();
        T.S().mesh = A.S().mesh;
        clone_model(A, T);
        for (auto &sp : old) {
          PropBase &h = *sp->inst[0];
          int bk = PropBank::base_kind(sp->kind);
          size_t expn = sp->kind == PK_M ? 1 : T.S().lay.uid_at[bk].size() * (PropBank::half(sp->kind) ? 2 : 1);
          if (h.size() != expn) { fail = annot + ": handle of '" + sp->name + "' held on the assigned-to mesh has " + std::to_string(h.size()) + " elements, the mesh now has " + std::to_string(expn); break; }
          for (size_t k = 0; k < h.size(); ++k) (void)h.show(k);
          // the handle now designates a private property of the mesh: it cannot still claim to be persistent (a stale
          // flag makes a later set_shared + set_persistent a no-op, and the next copy silently drops the property)
          if (h.persistent()) { fail = annot + ": handle of '" + sp->name + "' held on the assigned-to mesh still reports persistent() although the property was detached from the mesh's persistent set"; break; }
          bool from_source = false;  // a persistent property of the same name, type and kind on the source is carried over
          { auto q = find_prop_kt(A.S().mesh, sp->kind, sp->type, sp->name); from_source = q && q->persistent(); }
          if (!from_source && find_prop_kt(T.S().mesh, sp->kind, sp->type, sp->name)) { fail = annot + ": old property '" + sp->name + "' of the assigned-to mesh is still findable by name"; break; }
        }
        if (fail.empty() && check_equal_mesh(A, T, annot) && check_copied_props(A, T, annot)) snap_world(T);
        // the old handles stay alive a little longer (dropped here)
      }
      if (fail.empty() && (op.a[1] & 1) && W.size() > target && W[target]) active = target;
    } else if (op.code == O_PROP_CREATE || op.code == O_PROP_WRITE || op.code == O_PROP_DROP) {
      static const int tmap[8] = {PT_INT, PT_BOOL, PT_DOUBLE, PT_STRING, PT_VEC3D, PT_BOOL, PT_INT, PT_STRING};
      if (op.code == O_PROP_CREATE) cont = A.bank.create(op.a[0] % PK_COUNT, tmap[op.a[1] % 8], op.a[2] % 3, op.a[3] % 5, annot);
      else if (op.code == O_PROP_WRITE) cont = A.bank.write(op.a[0], op.a[1], 1 + op.a[2] % 9, annot);
      else A.bank.drop(op.a[0], annot);
      if (W.size() > 1) ++muts_after_copy[active == 0 ? 0 : 1];
    } else {
      bool was_clear = op.code == O_CLEAR;
      cont = A.I.run_op(op);
      annot = A.I.cur_annot;
      if (was_clear && cont) A.bank.on_clear();
      if (W.size() > 1) ++muts_after_copy[active == 0 ? 0 : 1];
      if (!A.I.fail.empty()) { st.count("discarded_prereq_" + A.I.fail_owner); res.annot.push_back(annot); break; }
    }
    res.annot.push_back(annot + (W.size() > 1 ? "   [on mesh #" + std::to_string(active) + "]" : ""));
    if (!fail.empty() || !cont) break;
    // the active world conforms to its own model; every other world is untouched
    {
      World &X = *W[active];
      std::string pm = X.bank.check(X.S(), 0);
      if (!pm.empty()) { st.count("discarded_prereq_C03"); break; }
      snap_world(X);
    }
    for (size_t w = 0; w < W.size(); ++w) {
      if (w == active || !W[w]) continue;
      ++indep_checks;
      RawSnap now = take_snap(W[w]->S().mesh, &W[w]->bank, 0);
      std::string d = snap_diff(W[w]->last, now, true);
      if (d.empty() && modes_of(W[w]->S().mesh) != W[w]->modes_last) d = "mode / bottom-up settings changed";
      if (!d.empty()) { fail = "after " + annot + " on mesh #" + std::to_string(active) + ", mesh #" + std::to_string(w) + " changed although it is an independent copy: " + d; break; }
    }
  }
  // assignment between mesh types (tet <-> poly) on a small generated tet mesh
  if (fail.empty() && !prog.empty()) {
    GeometricTetrahedralMeshV3d t;
    std::vector<VertexHandle> vs;
    for (int k = 0; k < 4 + prog[0].a[0] % 3; ++k) vs.push_back(t.add_vertex(Vec3d(k, k * k % 5, k % 3)));
    for (size_t k = 0; k + 3 < vs.size(); ++k) t.add_cell(vs[k], vs[k + 1], vs[k + 2], vs[k + 3], true);
    auto tp = *t.create_persistent_property<int, Entity::Cell>("tag", 7);
    GeometricPolyhedralMeshV3d p;
    p = t;
    RawSnap a = take_snap(t, nullptr, 0), b = take_snap(p, nullptr, 0);
    std::string d = snap_diff(a, b, true);
    if (!d.empty()) fail = "polyhedral = tetrahedral assignment differs from the source: " + d;
    else if (!p.get_property<int, Entity::Cell>("tag")) fail = "polyhedral = tetrahedral assignment lost the persistent property";
    else {
      t.add_cell(vs[0], vs[2], vs[1], t.add_vertex(Vec3d(9, 9, 9)), false);
      tp[CellHandle(0)] = 99;
      RawSnap b2 = take_snap(p, nullptr, 0);
      d = snap_diff(b, b2, true);
      if (!d.empty() || (*p.get_property<int, Entity::Cell>("tag"))[CellHandle(0)] != 7) fail = "modifying the tetrahedral source changed the polyhedral copy: " + d;
      GeometricTetrahedralMeshV3d t2;
      t2 = p;  // all-tet polyhedral mesh into a tetrahedral mesh
      RawSnap c = take_snap(t2, nullptr, 0);
      d = snap_diff(b2, c, true);
      if (fail.empty() && !d.empty()) fail = "tetrahedral = polyhedral(all tets) assignment differs from the source: " + d;
      ++assigns;
    }
  }
  st.count("copy_constructions", copies); st.count("assignments", assigns); st.count("independence_checks", indep_checks);
  st.count("mutations_after_copy_on_source", muts_after_copy[0]); st.count("mutations_after_copy_on_copy", muts_after_copy[1]);
  res.nontrivial = had_both_kinds && muts_after_copy[0] >= 3 && muts_after_copy[1] >= 3;
  if (!fail.empty()) { res.ok = false; res.msg = oneline(fail); }
  (void)id;
  return res;
}

}  // namespace target

VF_DEFINE_MAIN
