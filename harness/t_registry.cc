// C14: property registry - sharing by name, visibility, persistence, lifetime safety.
// Model-based stateful test: an explicit model of the registry is compared with the observable
// state after every operation; ASan/LSan judge memory safety of all handle/mesh lifetime interleavings.
#include "common.hh"
#include "rcmain.hh"
#include <OpenVolumeMesh/Mesh/PolyhedralMesh.hh>
#include <memory>
#include <optional>
#include <sstream>

using namespace vf;
using namespace OpenVolumeMesh;
using Mesh = TopologicPolyhedralMesh;  // no geometry: the registry holds only what the test creates

namespace target {

enum ROp { R_REQUEST, R_CREATE_SHARED, R_CREATE_PERSISTENT, R_CREATE_PRIVATE, R_GET, R_EXISTS, R_SET_SHARED, R_SET_PERSISTENT, R_SET_NAME,
           R_COPY_HANDLE, R_MOVE_HANDLE, R_DROP, R_CLEAR_KIND, R_CLEAR_ALL, R_CLEAR_MESH, R_COPY_MESH, R_ASSIGN_MESH, R_DESTROY_MESH, R_NEW_MESH,
           R_ADD_ENTITIES, R_COUNT };
const std::vector<OpInfo> &optable() {
  static const std::vector<OpInfo> t = {{"request_property", 5}, {"create_shared_property", 5}, {"create_persistent_property", 5}, {"create_private_property", 5},
                                        {"get_property", 5}, {"property_exists", 4}, {"set_shared", 2}, {"set_persistent", 2}, {"set_name", 2},
                                        {"copy_handle", 2}, {"move_handle", 2}, {"drop_handle", 1}, {"clear_props_of_kind", 2}, {"clear_all_props", 1},
                                        {"clear", 2}, {"copy_construct_mesh", 2}, {"assign_mesh", 2}, {"destroy_mesh", 1}, {"new_mesh", 1}, {"add_entities", 1}};
  return t;
}
std::vector<std::pair<int, int>> weights(const std::string &) {
  return {{10, R_REQUEST}, {8, R_CREATE_SHARED}, {8, R_CREATE_PERSISTENT}, {6, R_CREATE_PRIVATE}, {8, R_GET}, {4, R_EXISTS}, {8, R_SET_SHARED},
          {8, R_SET_PERSISTENT}, {6, R_SET_NAME}, {6, R_COPY_HANDLE}, {3, R_MOVE_HANDLE}, {8, R_DROP}, {3, R_CLEAR_KIND}, {2, R_CLEAR_ALL},
          {2, R_CLEAR_MESH}, {3, R_COPY_MESH}, {3, R_ASSIGN_MESH}, {2, R_DESTROY_MESH}, {2, R_NEW_MESH}, {3, R_ADD_ENTITIES}};
}
static std::string oneline(std::string s) { for (auto &c : s) if (c == '\n' || c == '\r') c = ' '; return s; }
static const char *NAMES[3] = {"", "a", "b"};
static const char *KINDS[4] = {"vertex", "halfedge", "cell", "mesh"};
static const char *TYPES[3] = {"int", "bool", "string"};

// type-erased handle
struct HBase {
  virtual ~HBase() = default;
  virtual bool attached() const = 0;
  virtual bool shared() const = 0;
  virtual bool persistent() const = 0;
  virtual bool anonymous() const = 0;
  virtual std::string name() const = 0;
  virtual const void *identity() const = 0;
  virtual size_t size() const = 0;
  virtual void set_name(const std::string &) = 0;
  virtual std::unique_ptr<HBase> copy() const = 0;
  virtual void set_shared(Mesh &, bool) = 0;
  virtual void set_persistent(Mesh &, bool) = 0;
  virtual void touch() = 0;  // read and write every element (memory safety)
};
template <class T, class Tag> struct HT : HBase {
  PropertyPtr<T, Tag> p;
  explicit HT(PropertyPtr<T, Tag> q) : p(std::move(q)) {}
  bool attached() const override { return (bool)p; }
  bool shared() const override { return p.shared(); }
  bool persistent() const override { return p.persistent(); }
  bool anonymous() const override { return p.anonymous(); }
  std::string name() const override { return p.name(); }
  const void *identity() const override { return &p.data_vector(); }
  size_t size() const override { return p.size(); }
  void set_name(const std::string &n) override { p.set_name(n); }
  std::unique_ptr<HBase> copy() const override { return std::unique_ptr<HBase>(new HT<T, Tag>(p)); }
  void set_shared(Mesh &m, bool b) override { m.set_shared(p, b); }
  void set_persistent(Mesh &m, bool b) override { m.set_persistent(p, b); }
  void touch() override {
    using H = typename PropertyPtr<T, Tag>::EntityHandleT;
    for (size_t i = 0; i < p.size(); ++i) { T v = p[H((int)i)]; p[H((int)i)] = v; }
  }
};

// model ------------------------------------------------------------------------------
struct Storage { int kind, type; std::string name; bool shared, persistent; int mesh; int handles; bool dead = false; };

struct Reg {
  std::unique_ptr<Mesh> mesh[2];
  std::unique_ptr<HBase> slot[8];
  int slot_storage[8];
  std::vector<Storage> st;  // model storages (never erased; dead flag)
  std::string fail;
  uint64_t throws_expected = 0, shared_hits = 0, detached_seen = 0;

  Reg() { for (auto &s : slot_storage) s = -1; mesh[0].reset(new Mesh()); mesh[1].reset(new Mesh()); }
  bool setfail(const std::string &s) { if (fail.empty()) fail = s; return false; }
  int find(int m, int kind, int type, const std::string &name) const {
    if (name.empty()) return -1;
    for (size_t i = 0; i < st.size(); ++i) { const Storage &s = st[i]; if (!s.dead && s.mesh == m && s.kind == kind && s.type == type && s.shared && s.name == name) return (int)i; }
    return -1;
  }
  void reap() { for (auto &s : st) if (!s.dead && s.handles == 0 && !(s.persistent && s.mesh >= 0)) s.dead = true; }
  void drop_slot(int k) {
    if (slot_storage[k] >= 0) { st[(size_t)slot_storage[k]].handles--; slot_storage[k] = -1; }
    slot[k].reset();
    reap();
  }
  void put(int k, std::unique_ptr<HBase> h, int sid) { st[(size_t)sid].handles++; drop_slot(k); slot[k] = std::move(h); slot_storage[k] = sid; }

  // typed dispatch helpers -------------------------------------------------------------
  template <class T, class Tag> std::unique_ptr<HBase> do_create(Mesh &m, int how, const std::string &name, bool &got, bool &threw) {
    got = false; threw = false;
    try {
      if (how == R_REQUEST) { got = true; return std::unique_ptr<HBase>(new HT<T, Tag>(m.request_property<T, Tag>(name))); }
      if (how == R_CREATE_PRIVATE) { got = true; return std::unique_ptr<HBase>(new HT<T, Tag>(m.create_private_property<T, Tag>(name))); }
      std::optional<PropertyPtr<T, Tag>> o;
      if (how == R_CREATE_SHARED) o = m.create_shared_property<T, Tag>(name);
      else if (how == R_CREATE_PERSISTENT) o = m.create_persistent_property<T, Tag>(name);
      else o = m.get_property<T, Tag>(name);
      if (!o) return nullptr;
      got = true;
      return std::unique_ptr<HBase>(new HT<T, Tag>(*o));
    } catch (std::runtime_error &) { threw = true; return nullptr; }
  }
  template <class Tag> std::unique_ptr<HBase> do_create_t(Mesh &m, int type, int how, const std::string &name, bool &got, bool &threw) {
    if (type == 0) return do_create<int, Tag>(m, how, name, got, threw);
    if (type == 1) return do_create<bool, Tag>(m, how, name, got, threw);
    return do_create<std::string, Tag>(m, how, name, got, threw);
  }
  std::unique_ptr<HBase> do_create_kt(Mesh &m, int kind, int type, int how, const std::string &name, bool &got, bool &threw) {
    switch (kind) {
    case 0: return do_create_t<Entity::Vertex>(m, type, how, name, got, threw);
    case 1: return do_create_t<Entity::HalfEdge>(m, type, how, name, got, threw);
    case 2: return do_create_t<Entity::Cell>(m, type, how, name, got, threw);
    default: return do_create_t<Entity::Mesh>(m, type, how, name, got, threw);
    }
  }
  template <class Tag> bool exists_t(const Mesh &m, int type, const std::string &n) const {
    if (type == 0) return m.property_exists<int, Tag>(n);
    if (type == 1) return m.property_exists<bool, Tag>(n);
    return m.property_exists<std::string, Tag>(n);
  }
  bool exists(const Mesh &m, int kind, int type, const std::string &n) const {
    switch (kind) {
    case 0: return exists_t<Entity::Vertex>(m, type, n);
    case 1: return exists_t<Entity::HalfEdge>(m, type, n);
    case 2: return exists_t<Entity::Cell>(m, type, n);
    default: return exists_t<Entity::Mesh>(m, type, n);
    }
  }
  template <class Tag> void counts(const Mesh &m, size_t &n, size_t &np, std::multiset<std::string> &names) const {
    n = m.n_props<Tag>(); np = m.n_persistent_props<Tag>();
    for (auto it = m.persistent_props_begin<Tag>(); it != m.persistent_props_end<Tag>(); ++it) names.insert((*it)->name() + ":" + (*it)->internal_type_name().substr(0, 3) + ((*it)->shared() ? ":s" : ":!s") + ((*it)->persistent() ? ":p" : ":!p"));
  }
  void counts_k(const Mesh &m, int kind, size_t &n, size_t &np, std::multiset<std::string> &names) const {
    switch (kind) {
    case 0: counts<Entity::Vertex>(m, n, np, names); break;
    case 1: counts<Entity::HalfEdge>(m, n, np, names); break;
    case 2: counts<Entity::Cell>(m, n, np, names); break;
    default: counts<Entity::Mesh>(m, n, np, names); break;
    }
  }
  size_t n_entities(const Mesh &m, int kind) const { return kind == 0 ? m.n_vertices() : kind == 1 ? m.n_halfedges() : kind == 2 ? m.n_cells() : 1; }

  // observable state as text (also used for "a throwing transition changes nothing")
  std::string observe() const {
    std::ostringstream o;
    for (int mi = 0; mi < 2; ++mi) {
      if (!mesh[mi]) { o << "mesh" << mi << ":gone;"; continue; }
      for (int k = 0; k < 4; ++k) {
        size_t n, np;
        std::multiset<std::string> names;
        counts_k(*mesh[mi], k, n, np, names);
        o << "mesh" << mi << "/" << KINDS[k] << ":n=" << n << ",np=" << np << "[";
        for (auto &s : names) o << s << ",";
        o << "];";
      }
    }
    std::map<const void *, int> ids;
    for (int k = 0; k < 8; ++k) {
      if (!slot[k]) { o << "slot" << k << ":-;"; continue; }
      const HBase &h = *slot[k];
      if (!ids.count(h.identity())) { int nid = (int)ids.size(); ids[h.identity()] = nid; }
      o << "slot" << k << ":st" << ids[h.identity()] << (h.attached() ? ",att" : ",det") << (h.shared() ? ",sh" : "") << (h.persistent() ? ",pers" : "") << ",'" << h.name() << "',size" << h.size() << ";";
    }
    return o.str();
  }

  // compare the observable state with the model; "" if equal
  std::string conform() {
    std::ostringstream o;
    for (int mi = 0; mi < 2; ++mi) {
      if (!mesh[mi]) continue;
      for (int k = 0; k < 4; ++k) {
        size_t n, np;
        std::multiset<std::string> names, exp;
        counts_k(*mesh[mi], k, n, np, names);
        size_t en = 0, enp = 0;
        for (auto &s : st) if (!s.dead && s.mesh == mi && s.kind == k) { ++en; if (s.persistent) { ++enp; exp.insert(s.name + ":" + (s.type == 0 ? "i" : s.type == 1 ? "b" : "N") ); } }
        if (n != en) { o << "mesh " << mi << ": n_props<" << KINDS[k] << ">() = " << n << ", model has " << en << " live properties of that kind"; return o.str(); }
        if (np != enp) { o << "mesh " << mi << ": n_persistent_props<" << KINDS[k] << ">() = " << np << ", model has " << enp; return o.str(); }
        std::multiset<std::string> en2, gn2;
        for (auto &s : st) if (!s.dead && s.mesh == mi && s.kind == k && s.persistent) en2.insert(s.name);
        for (auto &x : names) { gn2.insert(x.substr(0, x.find(':'))); if (x.find(":!s") != std::string::npos || x.find(":!p") != std::string::npos) { o << "mesh " << mi << ": a property in the persistent set is not shared+persistent: " << x; return o.str(); } }
        if (en2 != gn2) { o << "mesh " << mi << ": persistent " << KINDS[k] << " property names differ from the model"; return o.str(); }
        // lookups by name
        for (int t = 0; t < 3; ++t)
          for (int ni = 0; ni < 3; ++ni) {
            bool e = exists(*mesh[mi], k, t, NAMES[ni]);
            bool me = find(mi, k, t, NAMES[ni]) >= 0;
            if (e != me) { o << "mesh " << mi << ": property_exists<" << TYPES[t] << "," << KINDS[k] << ">('" << NAMES[ni] << "') = " << e << ", model says " << me; return o.str(); }
          }
      }
    }
    for (int k = 0; k < 8; ++k) {
      if (!slot[k]) continue;
      HBase &h = *slot[k];
      const Storage &s = st[(size_t)slot_storage[k]];
      if (h.attached() != (s.mesh >= 0)) { o << "handle " << k << ": operator bool = " << h.attached() << " but its mesh is " << (s.mesh >= 0 ? "alive" : "gone"); return o.str(); }
      if (h.shared() != s.shared || h.persistent() != s.persistent || h.name() != s.name || h.anonymous() != s.name.empty()) {
        o << "handle " << k << ": shared/persistent/name = " << h.shared() << "/" << h.persistent() << "/'" << h.name() << "', model " << s.shared << "/" << s.persistent << "/'" << s.name << "'"; return o.str(); }
      if (s.persistent && !s.shared) { o << "handle " << k << ": persistent but not shared"; return o.str(); }
      if (s.shared && s.name.empty()) { o << "handle " << k << ": shared but anonymous"; return o.str(); }
      if (s.mesh >= 0 && mesh[s.mesh] && h.size() != n_entities(*mesh[s.mesh], s.kind)) { o << "handle " << k << ": size " << h.size() << " != entity count " << n_entities(*mesh[s.mesh], s.kind); return o.str(); }
      h.touch();
      for (int j = 0; j < k; ++j)
        if (slot[j]) { bool same = slot[j]->identity() == h.identity(); if (same != (slot_storage[j] == slot_storage[k])) { o << "handles " << j << " and " << k << (same ? " share" : " do not share") << " a storage, model says otherwise"; return o.str(); } }
      // shared and named implies unique on its mesh
      if (s.shared && s.mesh >= 0) for (size_t i = 0; i < st.size(); ++i) if ((int)i != slot_storage[k] && !st[i].dead && st[i].mesh == s.mesh && st[i].kind == s.kind && st[i].type == s.type && st[i].shared && st[i].name == s.name) { o << "two shared properties named '" << s.name << "' of the same type and kind on mesh " << s.mesh; return o.str(); }
    }
    return "";
  }
};

vf::CaseResult run_case(const std::string &id, const Program &prog, Stats &st) {
  CaseResult res;
  Reg R;
  bool nt_collision = false, nt_lifetime = false;
  for (size_t i = 0; i < prog.size() && R.fail.empty(); ++i) {
    const Op &op = prog[i];
    const int *a = op.a;
    std::ostringstream an;
    an << optable()[(size_t)op.code].name;
    st.count(std::string("op:") + optable()[(size_t)op.code].name);
    int mi = a[0] % 2;
    switch (op.code) {
    case R_REQUEST: case R_CREATE_SHARED: case R_CREATE_PERSISTENT: case R_CREATE_PRIVATE: case R_GET: {
      if (!R.mesh[mi]) break;
      int kind = a[1] % 4, type = a[2] % 3, slot = a[4] % 8;
      std::string name = NAMES[a[3] % 3];
      an << "<" << TYPES[type] << "," << KINDS[kind] << ">(mesh " << mi << ", '" << name << "') -> slot " << slot;
      int found = R.find(mi, kind, type, name);
      if (found >= 0) { nt_collision = true; ++R.shared_hits; }
      std::string before = R.observe();
      bool got, threw;
      auto h = R.do_create_kt(*R.mesh[mi], kind, type, op.code, name, got, threw);
      bool expect_new = false, expect_existing = false, expect_none = false, expect_throw = false;
      bool mk_shared = false, mk_pers = false;
      switch (op.code) {
      case R_REQUEST: if (found >= 0) expect_existing = true; else { expect_new = true; mk_shared = !name.empty(); } break;
      case R_CREATE_PRIVATE: expect_new = true; break;
      case R_GET: if (found >= 0) expect_existing = true; else expect_none = true; break;
      default:
        if (found >= 0) expect_none = true;
        else if (name.empty()) expect_throw = true;  // shared implies named: an anonymous shared/persistent property must be refused
        else { expect_new = true; mk_shared = true; mk_pers = op.code == R_CREATE_PERSISTENT; }
      }
      if (expect_throw) {
        ++R.throws_expected;
        if (got) { R.setfail(an.str() + ": created a shared property without a name (shared implies named)"); break; }
        if (R.observe() != before) { R.setfail(an.str() + ": refused but the registry changed"); break; }
        break;
      }
      if (threw) { R.setfail(an.str() + ": threw unexpectedly"); break; }
      if (expect_none) { if (got) R.setfail(an.str() + ": returned a property although " + (op.code == R_GET ? "none of that name exists" : "the name is taken (create_* refuses duplicates)")); else if (R.observe() != before) R.setfail(an.str() + ": returned nothing but the registry changed"); break; }
      if (!got) { R.setfail(an.str() + ": returned nothing, expected a property"); break; }
      if (expect_existing) { R.put(slot, std::move(h), found); break; }
      R.st.push_back(Storage{kind, type, name, mk_shared, mk_pers, mi, 0});
      R.put(slot, std::move(h), (int)R.st.size() - 1);
      break;
    }
    case R_EXISTS: break;  // every (kind,type,name) is compared in conform()
    case R_SET_SHARED: case R_SET_PERSISTENT: {
      int k = a[0] % 8;
      bool val = a[1] & 1;
      if (!R.slot[k]) break;
      Storage &s = R.st[(size_t)R.slot_storage[k]];
      if (s.mesh < 0) break;  // detached handle: no mesh to ask
      an << "(slot " << k << ", " << val << ")";
      bool legal = true;
      if (op.code == R_SET_SHARED && val && !s.shared) legal = !s.name.empty() && R.find(s.mesh, s.kind, s.type, s.name) < 0;
      if (op.code == R_SET_PERSISTENT && val && !s.persistent) legal = s.shared;
      std::string before = R.observe();
      bool threw = false;
      try { if (op.code == R_SET_SHARED) R.slot[k]->set_shared(*R.mesh[s.mesh], val); else R.slot[k]->set_persistent(*R.mesh[s.mesh], val); } catch (std::runtime_error &) { threw = true; }
      if (!legal) {
        ++R.throws_expected;
        nt_collision = true;
        if (!threw) { R.setfail(an.str() + ": illegal transition (would break persistent => shared => named and unique) did not throw"); break; }
        if (R.observe() != before) { R.setfail(an.str() + ": threw but changed the registry"); break; }
      } else {
        if (threw) { R.setfail(an.str() + ": legal transition threw"); break; }
        if (op.code == R_SET_SHARED) { s.shared = val; if (!val) s.persistent = false; } else s.persistent = val;
        R.reap();
      }
      break;
    }
    case R_SET_NAME: {
      int k = a[0] % 8;
      if (!R.slot[k]) break;
      Storage &s = R.st[(size_t)R.slot_storage[k]];
      std::string name = NAMES[a[1] % 3];
      an << "(slot " << k << ", '" << name << "')";
      bool legal = !s.shared || (!name.empty() && (name == s.name || s.mesh < 0 || R.find(s.mesh, s.kind, s.type, name) < 0));
      std::string before = R.observe();
      bool threw = false;
      try { R.slot[k]->set_name(name); } catch (std::exception &) { threw = true; }
      if (!legal) {
        ++R.throws_expected;
        if (!threw) { R.setfail(an.str() + ": renaming a shared property to an empty or colliding name did not throw (shared implies named and unique)"); break; }
        if (R.observe() != before) { R.setfail(an.str() + ": threw but changed the registry"); break; }
      } else { if (threw) { R.setfail(an.str() + ": legal rename threw"); break; } s.name = name; }
      break;
    }
    case R_COPY_HANDLE: { int f = a[0] % 8, t = a[1] % 8; if (!R.slot[f] || f == t) break; an << "(slot " << f << " -> " << t << ")"; auto c = R.slot[f]->copy(); R.put(t, std::move(c), R.slot_storage[f]); break; }
    case R_MOVE_HANDLE: { int f = a[0] % 8, t = a[1] % 8; if (!R.slot[f] || f == t) break; an << "(slot " << f << " -> " << t << ")"; int sid = R.slot_storage[f]; auto h = std::move(R.slot[f]); R.slot_storage[f] = -1; R.st[(size_t)sid].handles--; R.put(t, std::move(h), sid); break; }
    case R_DROP: an << "(slot " << a[0] % 8 << ")"; R.drop_slot(a[0] % 8); nt_lifetime = true; break;
    case R_CLEAR_KIND: case R_CLEAR_ALL: case R_CLEAR_MESH: {
      if (!R.mesh[mi]) break;
      int kind = a[1] % 4;
      an << "(mesh " << mi << (op.code == R_CLEAR_KIND ? std::string(", ") + KINDS[kind] : "") << ")";
      if (op.code == R_CLEAR_KIND) {
        switch (kind) { case 0: R.mesh[mi]->clear_props<Entity::Vertex>(); break; case 1: R.mesh[mi]->clear_props<Entity::HalfEdge>(); break; case 2: R.mesh[mi]->clear_props<Entity::Cell>(); break; default: R.mesh[mi]->clear_props<Entity::Mesh>(); }
      } else if (op.code == R_CLEAR_ALL) R.mesh[mi]->clear_all_props();
      else R.mesh[mi]->clear(a[1] & 1);
      bool props = op.code != R_CLEAR_MESH || (a[1] & 1);
      if (props) for (auto &s : R.st) if (!s.dead && s.mesh == mi && (op.code != R_CLEAR_KIND || s.kind == kind)) { s.shared = false; s.persistent = false; }
      R.reap();
      nt_lifetime = true;
      break;
    }
    case R_COPY_MESH: case R_ASSIGN_MESH: {
      int from = a[0] % 2, to = a[1] % 2;
      if (!R.mesh[from]) break;
      an << "(mesh " << from << " -> mesh " << to << ")";
      if (op.code == R_COPY_MESH) {
        if (from == to) break;
        std::unique_ptr<Mesh> n(new Mesh(*R.mesh[from]));
        for (auto &s : R.st) if (!s.dead && s.mesh == to) s.mesh = -1;   // old target mesh dies
        R.mesh[to] = std::move(n);
        R.reap();
      } else {
        if (!R.mesh[to]) break;
        *R.mesh[to] = *R.mesh[from];
        if (from == to) break;
        for (auto &s : R.st) if (!s.dead && s.mesh == to) { s.shared = false; s.persistent = false; }
        R.reap();
      }
      size_t n0 = R.st.size();
      for (size_t j = 0; j < n0; ++j) if (!R.st[j].dead && R.st[j].mesh == from && R.st[j].persistent) { Storage c = R.st[j]; c.mesh = to; c.handles = 0; R.st.push_back(c); }
      nt_lifetime = true;
      break;
    }
    case R_DESTROY_MESH: if (R.mesh[mi]) { an << "(mesh " << mi << ")"; R.mesh[mi].reset(); for (auto &s : R.st) if (!s.dead && s.mesh == mi) { s.mesh = -1; if (s.handles > 0) ++R.detached_seen; } R.reap(); nt_lifetime = true; } break;
    case R_NEW_MESH: if (!R.mesh[mi]) { an << "(mesh " << mi << ")"; R.mesh[mi].reset(new Mesh()); } break;
    case R_ADD_ENTITIES: if (R.mesh[mi]) { an << "(mesh " << mi << ")"; auto v0 = R.mesh[mi]->add_vertex(), v1 = R.mesh[mi]->add_vertex(); R.mesh[mi]->add_edge(v0, v1, true); } break;
    default: break;
    }
    res.annot.push_back(an.str());
    if (R.fail.empty()) { std::string c = R.conform(); if (!c.empty()) R.setfail("after " + an.str() + ": " + c); }
  }
  st.count("illegal_transitions_offered", R.throws_expected); st.count("lookups_hitting_existing_shared", R.shared_hits); st.count("handles_outliving_their_mesh", R.detached_seen);
  res.nontrivial = nt_collision && nt_lifetime;
  if (!R.fail.empty()) { res.ok = false; res.msg = oneline(R.fail); }
  (void)id;
  return res;
}

}  // namespace target

VF_DEFINE_MAIN
