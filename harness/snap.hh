// Handle-exact raw snapshot of everything a user can observe about a mesh (C17, C11):
// deletion flags, definitions of live entities, base incidence sequences, raw property arrays.
#pragma once
#include "oracle_c01.hh"
#include "props.hh"

namespace vf {

struct RawSnap {
  // tables indexed by handle; entries are lists of handle indices (with a value kind for relabeling)
  std::vector<int> vflag, eflag, fflag, cflag;
  std::vector<std::vector<int>> edef, fdef, cdef;   // [] for deleted slots (not observable)
  std::vector<std::vector<int>> out, hehf;          // ordered base incidence sequences of live centres
  std::vector<int> ic;                              // incident cell per live halfface (-2 = not recorded)
  std::vector<std::vector<std::string>> props;      // one table per property slot (all slots, incl. deleted)
  std::vector<int> prop_kind;
  std::vector<std::string> positions;
  bool vbu = false, ebu = false, fbu = false;

  bool operator==(const RawSnap &o) const {
    return vflag == o.vflag && eflag == o.eflag && fflag == o.fflag && cflag == o.cflag && edef == o.edef && fdef == o.fdef &&
           cdef == o.cdef && out == o.out && hehf == o.hehf && ic == o.ic && props == o.props && positions == o.positions;
  }
};

template <class M> RawSnap take_snap(const M &m, const PropBank *bank, size_t sut_index) {
  RawSnap s;
  int nv = (int)m.n_vertices(), ne = (int)m.n_edges(), nf = (int)m.n_faces(), nc = (int)m.n_cells();
  s.vbu = m.has_vertex_bottom_up_incidences(); s.ebu = m.has_edge_bottom_up_incidences(); s.fbu = m.has_face_bottom_up_incidences();
  for (int i = 0; i < nv; ++i) s.vflag.push_back(m.is_deleted(VertexHandle(i)));
  for (int i = 0; i < ne; ++i) s.eflag.push_back(m.is_deleted(EdgeHandle(i)));
  for (int i = 0; i < nf; ++i) s.fflag.push_back(m.is_deleted(FaceHandle(i)));
  for (int i = 0; i < nc; ++i) s.cflag.push_back(m.is_deleted(CellHandle(i)));
  s.edef.resize((size_t)ne); s.fdef.resize((size_t)nf); s.cdef.resize((size_t)nc);
  for (int i = 0; i < ne; ++i) if (!s.eflag[(size_t)i]) s.edef[(size_t)i] = {m.edge(EdgeHandle(i)).from_vertex().idx(), m.edge(EdgeHandle(i)).to_vertex().idx()};
  for (int i = 0; i < nf; ++i) if (!s.fflag[(size_t)i]) for (auto h : m.face(FaceHandle(i)).halfedges()) s.fdef[(size_t)i].push_back(h.idx());
  for (int i = 0; i < nc; ++i) if (!s.cflag[(size_t)i]) for (auto h : m.cell(CellHandle(i)).halffaces()) s.cdef[(size_t)i].push_back(h.idx());
  s.out.resize((size_t)nv); s.hehf.resize((size_t)ne * 2); s.ic.assign((size_t)nf * 2, -2);
  if (s.vbu) for (int i = 0; i < nv; ++i) if (!s.vflag[(size_t)i]) s.out[(size_t)i] = collect(m.outgoing_halfedges(VertexHandle(i)));
  if (s.ebu) for (int i = 0; i < 2 * ne; ++i) if (!s.eflag[(size_t)i / 2]) s.hehf[(size_t)i] = collect(m.halfedge_halffaces(HalfEdgeHandle(i)));
  if (s.fbu) for (int i = 0; i < 2 * nf; ++i) if (!s.fflag[(size_t)i / 2]) s.ic[(size_t)i] = m.incident_cell(HalfFaceHandle(i)).idx();
  for (int i = 0; i < nv; ++i) { std::ostringstream o; o << m.vertex(VertexHandle(i)); s.positions.push_back(o.str()); }
  if (bank)
    for (auto &sp : bank->slots) {
      const PropBase &p = *sp->inst[sut_index];
      std::vector<std::string> t;
      for (size_t i = 0; i < p.size(); ++i) t.push_back(p.show(i));
      s.props.push_back(std::move(t));
      s.prop_kind.push_back(sp->kind);
    }
  return s;
}

// relabel a snapshot by the transposition (h1 h2) of handles of kind `kind` (KV..KC)
struct Relabel {
  int kind, h1, h2;
  int map(int k, int h) const {  // k: handle kind of the value: KV,KE,KF,KC, 10+KE = halfedge, 10+KF = halfface
    if (h < 0) return h;
    if (k == kind) return h == h1 ? h2 : h == h2 ? h1 : h;
    if (k == 10 + kind) { int f = h / 2, s = h & 1; f = (f == h1 ? h2 : f == h2 ? h1 : f); return 2 * f + s; }
    return h;
  }
  template <class T> std::vector<T> permute(const std::vector<T> &t, int index_kind) const {
    std::vector<T> r(t.size());
    for (size_t i = 0; i < t.size(); ++i) r[(size_t)map(index_kind, (int)i)] = t[i];
    return r;
  }
  std::vector<int> mapv(const std::vector<int> &v, int value_kind) const {
    std::vector<int> r;
    for (int x : v) r.push_back(map(value_kind, x));
    return r;
  }
};

inline int pk_index_kind(int pk) {
  switch (pk) {
  case PK_V: return KV;
  case PK_E: return KE;
  case PK_HE: return 10 + KE;
  case PK_F: return KF;
  case PK_HF: return 10 + KF;
  case PK_C: return KC;
  default: return 99;
  }
}

// expected snapshot after swapping (h1,h2) of `kind`, derived from the snapshot before
inline RawSnap relabel_snap(const RawSnap &a, const Relabel &r) {
  RawSnap b = a;
  b.vflag = r.permute(a.vflag, KV); b.eflag = r.permute(a.eflag, KE); b.fflag = r.permute(a.fflag, KF); b.cflag = r.permute(a.cflag, KC);
  auto tab = [&](const std::vector<std::vector<int>> &t, int ik, int vk) {
    auto p = r.permute(t, ik);
    for (auto &v : p) v = r.mapv(v, vk);
    return p;
  };
  b.edef = tab(a.edef, KE, KV);
  b.fdef = tab(a.fdef, KF, 10 + KE);
  b.cdef = tab(a.cdef, KC, 10 + KF);
  b.out = tab(a.out, KV, 10 + KE);
  b.hehf = tab(a.hehf, 10 + KE, 10 + KF);
  b.ic = r.permute(a.ic, 10 + KF);
  for (auto &x : b.ic) x = r.map(KC, x);
  b.positions = r.permute(a.positions, KV);
  for (size_t i = 0; i < a.props.size(); ++i) b.props[i] = r.permute(a.props[i], pk_index_kind(a.prop_kind[i]));
  return b;
}

// first difference between two snapshots (incidence lists compared as multisets if !ordered)
inline std::string snap_diff(const RawSnap &exp, const RawSnap &got, bool ordered) {
  std::ostringstream o;
  auto cmpflags = [&](const char *n, const std::vector<int> &a, const std::vector<int> &b) {
    if (a.size() != b.size()) { o << n << " count " << b.size() << " != " << a.size(); return true; }
    for (size_t i = 0; i < a.size(); ++i) if (a[i] != b[i]) { o << n << "[" << i << "] = " << b[i] << ", expected " << a[i]; return true; }
    return false;
  };
  auto cmptab = [&](const char *n, const std::vector<std::vector<int>> &a, const std::vector<std::vector<int>> &b, bool ord) {
    if (a.size() != b.size()) { o << n << " count " << b.size() << " != " << a.size(); return true; }
    for (size_t i = 0; i < a.size(); ++i) {
      bool eq = ord ? a[i] == b[i] : sorted(a[i]) == sorted(b[i]);
      if (!eq) { o << n << "[" << i << "] = " << vec_str(b[i]) << ", expected " << vec_str(a[i]); return true; }
    }
    return false;
  };
  if (cmpflags("is_deleted(V)", exp.vflag, got.vflag) || cmpflags("is_deleted(E)", exp.eflag, got.eflag) ||
      cmpflags("is_deleted(F)", exp.fflag, got.fflag) || cmpflags("is_deleted(C)", exp.cflag, got.cflag))
    return o.str();
  if (cmptab("edge", exp.edef, got.edef, true) || cmptab("face", exp.fdef, got.fdef, true) || cmptab("cell", exp.cdef, got.cdef, true))
    return o.str();
  if (cmptab("outgoing_halfedges", exp.out, got.out, ordered) || cmptab("halfedge_halffaces", exp.hehf, got.hehf, ordered)) return o.str();
  if (cmpflags("incident_cell", exp.ic, got.ic)) return o.str();
  for (size_t i = 0; i < exp.positions.size() && i < got.positions.size(); ++i)
    if (exp.positions[i] != got.positions[i]) { o << "position[" << i << "] = " << got.positions[i] << ", expected " << exp.positions[i]; return o.str(); }
  if (exp.positions.size() != got.positions.size()) { o << "position count differs"; return o.str(); }
  for (size_t p = 0; p < exp.props.size(); ++p) {
    if (exp.props[p].size() != got.props[p].size()) { o << "property #" << p << " size " << got.props[p].size() << ", expected " << exp.props[p].size(); return o.str(); }
    for (size_t i = 0; i < exp.props[p].size(); ++i)
      if (exp.props[p][i] != got.props[p][i]) {
        o << pkind_name[exp.prop_kind[p]] << " property #" << p << "[" << i << "] = " << got.props[p][i] << ", expected " << exp.props[p][i];
        return o.str();
      }
  }
  return "";
}

}  // namespace vf
