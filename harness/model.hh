// Logical (uid-addressed) reference model of a polyhedral mesh and the
// per-mesh layout (uid <-> handle). Independent of the library.
#pragma once
#include <algorithm>
#include <set>
#include <string>
#include <vector>

namespace vf {

struct HEu { int e, s; bool operator==(const HEu &o) const { return e == o.e && s == o.s; } };
struct HFu { int f, s; bool operator==(const HFu &o) const { return f == o.f && s == o.s; } };

enum Kind { KV = 0, KE = 1, KF = 2, KC = 3 };

struct Logical {
  struct Edge { int from, to; bool alive; };
  struct Face { std::vector<HEu> hes; bool alive; };
  struct Cell { std::vector<HFu> hfs; bool alive; };
  std::vector<char> V;
  std::vector<Edge> E;
  std::vector<Face> F;
  std::vector<Cell> C;

  void clear() { V.clear(); E.clear(); F.clear(); C.clear(); }
  bool alive(int kind, int uid) const {
    switch (kind) {
    case KV: return V[(size_t)uid];
    case KE: return E[(size_t)uid].alive;
    case KF: return F[(size_t)uid].alive;
    default: return C[(size_t)uid].alive;
    }
  }
  size_t count(int kind) const { return kind == KV ? V.size() : kind == KE ? E.size() : kind == KF ? F.size() : C.size(); }
  std::vector<int> live(int kind) const {
    std::vector<int> r;
    for (size_t i = 0; i < count(kind); ++i) if (alive(kind, (int)i)) r.push_back((int)i);
    return r;
  }
  size_t n_live(int kind) const { size_t n = 0; for (size_t i = 0; i < count(kind); ++i) n += alive(kind, (int)i); return n; }

  int he_from(HEu h) const { return h.s ? E[(size_t)h.e].to : E[(size_t)h.e].from; }
  int he_to(HEu h) const { return h.s ? E[(size_t)h.e].from : E[(size_t)h.e].to; }
  // halfedge cycle of a halfface
  std::vector<HEu> hf_hes(HFu h) const {
    const auto &l = F[(size_t)h.f].hes;
    if (!h.s) return l;
    std::vector<HEu> r;
    for (auto it = l.rbegin(); it != l.rend(); ++it) r.push_back(HEu{it->e, it->s ^ 1});
    return r;
  }
  std::vector<int> hf_vertices(HFu h) const {  // from-vertex of every halfedge
    std::vector<int> r;
    for (auto he : hf_hes(h)) r.push_back(he_from(he));
    return r;
  }
  bool edge_has_vertex(int e, int v) const { return E[(size_t)e].from == v || E[(size_t)e].to == v; }
  bool face_has_edge(int f, int e) const {
    for (auto &h : F[(size_t)f].hes) if (h.e == e) return true;
    return false;
  }
  bool cell_has_face(int c, int f) const {
    for (auto &h : C[(size_t)c].hfs) if (h.f == f) return true;
    return false;
  }
  // live cells using a halfface
  std::vector<int> cells_on(HFu h) const {
    std::vector<int> r;
    for (size_t c = 0; c < C.size(); ++c)
      if (C[c].alive)
        for (auto &x : C[c].hfs) if (x == h) { r.push_back((int)c); break; }
    return r;
  }
  bool hf_free(HFu h) const { return cells_on(h).empty(); }
  std::vector<int> live_edges_between(int a, int b) const {
    std::vector<int> r;
    for (size_t e = 0; e < E.size(); ++e)
      if (E[e].alive && ((E[e].from == a && E[e].to == b) || (E[e].from == b && E[e].to == a))) r.push_back((int)e);
    return r;
  }
  // upward closure (live entities only)
  void closure(int kind, int uid, std::vector<int> &es, std::vector<int> &fs, std::vector<int> &cs) const {
    std::set<int> se, sf, sc;
    if (kind == KV) { for (size_t e = 0; e < E.size(); ++e) if (E[e].alive && edge_has_vertex((int)e, uid)) se.insert((int)e); }
    if (kind == KE) se.insert(uid);
    if (kind <= KE) {
      for (size_t f = 0; f < F.size(); ++f) if (F[f].alive)
        for (int e : se) if (face_has_edge((int)f, e)) { sf.insert((int)f); break; }
    }
    if (kind == KF) sf.insert(uid);
    if (kind <= KF) {
      for (size_t c = 0; c < C.size(); ++c) if (C[c].alive)
        for (int f : sf) if (cell_has_face((int)c, f)) { sc.insert((int)c); break; }
    }
    if (kind == KC) sc.insert(uid);
    if (kind == KE) se.clear();  // the victim itself is reported separately
    if (kind == KF) sf.clear();
    if (kind == KC) sc.clear();
    es.assign(se.begin(), se.end());
    fs.assign(sf.begin(), sf.end());
    cs.assign(sc.begin(), sc.end());
  }
};

// uid <-> slot (handle index) maps of one real mesh
struct Layout {
  std::vector<int> uid_at[4];
  std::vector<int> slot_of[4];
  void clear() { for (int k = 0; k < 4; ++k) { uid_at[k].clear(); slot_of[k].clear(); } }
  void rebuild(const Logical &L) {
    for (int k = 0; k < 4; ++k) {
      slot_of[k].assign(L.count(k), -1);
      for (size_t s = 0; s < uid_at[k].size(); ++s) slot_of[k][(size_t)uid_at[k][s]] = (int)s;
    }
  }
  void push(int kind, int uid) {
    uid_at[kind].push_back(uid);
    if (slot_of[kind].size() <= (size_t)uid) slot_of[kind].resize((size_t)uid + 1, -1);
    slot_of[kind][(size_t)uid] = (int)uid_at[kind].size() - 1;
  }
  // immediate removal of one slot: erase (shift) or swap-with-last
  void remove_slot(int kind, int slot, bool fast) {
    auto &u = uid_at[kind];
    if (fast) { std::swap(u[(size_t)slot], u.back()); u.pop_back(); }
    else u.erase(u.begin() + slot);
    reindex(kind);
  }
  void reindex(int kind) {
    std::fill(slot_of[kind].begin(), slot_of[kind].end(), -1);
    for (size_t s = 0; s < uid_at[kind].size(); ++s) slot_of[kind][(size_t)uid_at[kind][s]] = (int)s;
  }
  int slot(int kind, int uid) const { return slot_of[kind][(size_t)uid]; }
};

}  // namespace vf
