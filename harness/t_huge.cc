// C07, clause "a declared size that cannot be allocated": ENUMERATION of huge values in every numeric field of small
// valid files, read under a 1 GiB address-space limit in a forked child (no sanitizer: ASan aborts on large
// allocations by design and needs terabytes of address space for its shadow).
//   OVMB : every byte offset of the file x {u64, u32} x huge values written little-endian over the bytes there
//   ASCII: every numeric token of the file replaced by huge decimal numbers
// Oracle per case: the child terminates within the time limit, without a signal, and either reports failure,
// lets a std::exception escape (bad_alloc / length_error), or reports success with a valid mesh (fuzz_common.hh).
#include "ascii_shim.hh"
#include "fuzz_common.hh"
#include <OpenVolumeMesh/IO/ovmb_read.hh>
#include <OpenVolumeMesh/IO/ovmb_write.hh>
#include <fstream>
#include <iostream>
#include <sstream>
#include <fcntl.h>
#include <sys/resource.h>
#include <sys/wait.h>
#include <unistd.h>

using namespace OpenVolumeMesh;

enum Outcome { REPORTED_FAILURE = 0, STD_EXCEPTION = 10, SUCCESS_VALID = 20, OTHER_EXCEPTION = 30 };

static std::vector<std::string> ovmb_bases() {
  std::vector<std::string> out;
  {
    GeometricTetrahedralMeshV3d m;
    std::vector<VertexHandle> v;
    for (int i = 0; i < 5; ++i) v.push_back(m.add_vertex(Geometry::Vec3d(i, i % 2, i % 3)));
    m.add_cell(v[0], v[1], v[2], v[3]);
    m.add_cell(v[1], v[2], v[3], v[4]);
    auto p = *m.create_persistent_property<std::string, Entity::Vertex>("names", "dflt");
    p[v[1]] = "a longer string value";
    auto q = *m.create_persistent_property<double, Entity::Cell>("w", 1.5);
    q[CellHandle(0)] = 2.5;
    std::ostringstream ss(std::ios::binary);
    IO::ovmb_write(ss, m);
    out.push_back(ss.str());
  }
  {
    GeometricPolyhedralMeshV3d m;
    std::vector<VertexHandle> v;
    for (int i = 0; i < 5; ++i) v.push_back(m.add_vertex(Geometry::Vec3d(i, 1, 2)));
    auto f0 = m.add_face(std::vector<VertexHandle>{v[0], v[1], v[2], v[3]});
    std::vector<HalfFaceHandle> hfs{m.halfface_handle(f0, 1)};
    for (int i = 0; i < 4; ++i) hfs.push_back(m.halfface_handle(m.add_face(std::vector<VertexHandle>{v[(size_t)i], v[(size_t)(i + 1) % 4], v[4]}), 0));
    m.add_cell(hfs, false);
    auto p = *m.create_persistent_property<bool, Entity::HalfFace>("flag", false);
    p[HalfFaceHandle(3)] = true;
    auto q = *m.create_persistent_property<Geometry::Vec3f, Entity::Edge>("dir", Geometry::Vec3f(0, 0, 1));
    (void)q;
    std::ostringstream ss(std::ios::binary);
    IO::ovmb_write(ss, m);
    out.push_back(ss.str());
  }
  return out;
}

static const char *ASCII_BASES[] = {
    "OVM ASCII\nVertices\n4\n0 0 0\n1 0 0\n0 1 0\n0 0 1\nEdges\n6\n0 1\n1 2\n2 0\n0 3\n1 3\n2 3\nFaces\n4\n3 0 2 4\n3 1 9 6\n3 3 11 2\n3 5 8 10\nPolyhedra\n1\n4 1 3 5 7\n"
    "VProp int \"vi\"\n1\n2\n3\n4\nCProp string \"cs\"\n3:a b\nHFProp bool \"hb\"\n1\n0\n1\n0\n1\n0\n1\n0\nMProp double \"md\"\n2.5\n",
    "OVM ASCII\nVertices\n3\n0 0 0\n1 0 0\n0 1 0\nEdges\n3\n0 1\n1 2\n2 0\nFaces\n1\n3 0 2 4\nPolyhedra\n0\nFProp vector_double \"fv\"\n2\n1.5\n2.5\nHEProp map_heh_int \"hm\"\n1\n0\n7\n0\n0\n0\n0\n0\n"
    "VProp vector_vector_hfh \"vv\"\n1\n2\n0\n1\n0\n0\nVProp vector_vh \"vh\"\n1\n2\n0\n0\n",
};

static const uint64_t HUGE64[] = {1ull << 20, (1ull << 31) - 1, 1ull << 31, (1ull << 32) - 1, 1ull << 32, 1ull << 40, 1ull << 62, (1ull << 63) - 1, 1ull << 63, ~0ull};
static const uint32_t HUGE32[] = {1u << 20, 0x7fffffffu, 0x80000000u, 0xffffffffu};
static const char *HUGETXT[] = {"1048576", "2147483647", "2147483648", "4294967295", "4294967296", "1099511627776", "9223372036854775807", "9223372036854775808", "18446744073709551615", "99999999999999999999", "-1"};

template <class M, class Reader> static int read_case(Reader rd) {
  M m;
  bool ok;
  try { ok = rd(m); }
  catch (std::exception &) { return STD_EXCEPTION; }
  catch (...) { return OTHER_EXCEPTION; }
  if (!ok) return REPORTED_FAILURE;
  fz::validate_success(m);  // traps on an invalid mesh
  return SUCCESS_VALID;
}

// runs one case in a child; returns the outcome code, or -sig / -1000 (time limit)
static int run_child(bool ovmb, int meshtype, const std::string &bytes, int limit_s) {
  fflush(nullptr);
  pid_t pid = fork();
  if (pid == 0) {
    struct rlimit rl { 1ull << 30, 1ull << 30 };
    setrlimit(RLIMIT_AS, &rl);
    alarm((unsigned)limit_s);
    int devnull = open("/dev/null", O_WRONLY);
    if (devnull >= 0) { dup2(devnull, 1); dup2(devnull, 2); }
    int rc;
    if (ovmb) {
      auto rd = [&](auto &m) { std::istringstream ss(bytes, std::ios::binary); IO::ReadOptions ro; ro.topology_check = meshtype & 4; return IO::ovmb_read(ss, m, ro) == IO::ReadResult::Ok; };
      rc = (meshtype & 3) == 1 ? read_case<GeometricTetrahedralMeshV3d>(rd) : read_case<GeometricPolyhedralMeshV3d>(rd);
    } else {
      if ((meshtype & 3) == 1) rc = read_case<GeometricTetrahedralMeshV3d>([&](GeometricTetrahedralMeshV3d &m) { return ascii_shim::read_tet(bytes, meshtype & 4, true, m); });
      else rc = read_case<GeometricPolyhedralMeshV3d>([&](GeometricPolyhedralMeshV3d &m) { return ascii_shim::read_poly(bytes, meshtype & 4, true, m); });
    }
    _exit(rc);
  }
  int st = 0;
  waitpid(pid, &st, 0);
  if (WIFSIGNALED(st)) return WTERMSIG(st) == SIGALRM ? -1000 : -WTERMSIG(st);
  return WEXITSTATUS(st);
}

struct Case { bool ovmb; int base, meshtype; size_t pos; int width; std::string value; };

static std::string mutate_case(const Case &c, const std::vector<std::string> &ob) {
  if (c.ovmb) {
    std::string s = ob[(size_t)c.base];
    uint64_t v = strtoull(c.value.c_str(), nullptr, 10);
    for (int i = 0; i < c.width && c.pos + (size_t)i < s.size(); ++i) s[c.pos + (size_t)i] = (char)((v >> (8 * i)) & 0xff);
    return s;
  }
  // ASCII: pos = index of the numeric token
  std::string s = ASCII_BASES[c.base], out;
  size_t i = 0, tok = 0;
  while (i < s.size()) {
    if (isspace((unsigned char)s[i])) { out += s[i++]; continue; }
    size_t b = i;
    while (i < s.size() && !isspace((unsigned char)s[i])) ++i;
    std::string t = s.substr(b, i - b);
    bool numeric = !t.empty() && (isdigit((unsigned char)t[0]) || t[0] == '-');
    if (numeric) { out += (tok == c.pos) ? (t.find(':') != std::string::npos ? c.value + t.substr(t.find(':')) : c.value) : t; ++tok; }
    else out += t;
  }
  return out;
}

static size_t n_ascii_tokens(int base) {
  std::string s = ASCII_BASES[base];
  size_t i = 0, tok = 0;
  while (i < s.size()) {
    if (isspace((unsigned char)s[i])) { ++i; continue; }
    size_t b = i;
    while (i < s.size() && !isspace((unsigned char)s[i])) ++i;
    if (isdigit((unsigned char)s[b]) || s[b] == '-') ++tok;
  }
  return tok;
}

static std::string describe(const Case &c) {
  std::ostringstream o;
  o << "kind " << (c.ovmb ? "ovmb" : "ascii") << "\nbase " << c.base << "\nmeshtype " << c.meshtype << "\npos " << c.pos << "\nwidth " << c.width << "\nvalue " << c.value << "\n";
  return o.str();
}

int main(int argc, char **argv) {
  std::string out = "huge.json", replay, faildir = ".";
  int stride = 1;
  for (int i = 1; i < argc; ++i) {
    std::string a = argv[i];
    if (a == "--out" && i + 1 < argc) out = argv[++i];
    else if (a == "--replay" && i + 1 < argc) replay = argv[++i];
    else if (a == "--faildir" && i + 1 < argc) faildir = argv[++i];
    else if (a == "--stride" && i + 1 < argc) stride = std::max(1, atoi(argv[++i]));
  }
  auto ob = ovmb_bases();
  auto judge = [&](const Case &c, std::string &why) {
    int rc = run_child(c.ovmb, c.meshtype, mutate_case(c, ob), 20);
    if (rc == -1000) { why = "the read did not terminate within 20 s"; return false; }
    if (rc < 0) { why = "the read died with signal " + std::to_string(-rc) + (rc == -SIGILL ? " (success reported with an invalid mesh, or trap)" : ""); return false; }
    if (rc == OTHER_EXCEPTION) { why = "an exception that is not a std::exception escaped"; return false; }
    why = rc == REPORTED_FAILURE ? "failure" : rc == STD_EXCEPTION ? "std_exception" : rc == SUCCESS_VALID ? "success_valid" : "exit_" + std::to_string(rc);
    return rc == REPORTED_FAILURE || rc == STD_EXCEPTION || rc == SUCCESS_VALID;
  };
  if (!replay.empty()) {
    std::ifstream f(replay);
    std::string k, v;
    Case c{true, 0, 0, 0, 8, "0"};
    while (f >> k) {
      if (k[0] == '#') { std::getline(f, v); continue; }
      f >> v;
      if (k == "kind") c.ovmb = v == "ovmb"; else if (k == "base") c.base = atoi(v.c_str()); else if (k == "meshtype") c.meshtype = atoi(v.c_str());
      else if (k == "pos") c.pos = strtoull(v.c_str(), nullptr, 10); else if (k == "width") c.width = atoi(v.c_str()); else if (k == "value") c.value = v;
    }
    std::string why;
    bool ok = judge(c, why);
    std::cout << (ok ? "REPLAY-OK " : "REPLAY-FAIL ") << why << "\n";
    return ok ? 0 : 1;
  }
  std::map<std::string, uint64_t> classes;
  uint64_t cases = 0, nfail = 0;
  std::vector<std::string> samples;
  auto run = [&](const Case &c) {
    std::string why;
    if (nfail >= 3) return;  // the check has failed; further (possibly 20 s each) cases add nothing
    ++cases;
    bool ok = judge(c, why);
    if (ok) { ++classes[std::string(c.ovmb ? "ovmb:" : "ascii:") + why]; return; }
    ++nfail;
    if (nfail <= 5) {
      std::string path = faildir + "/huge-" + (c.ovmb ? "ovmb" : "ascii") + "-b" + std::to_string(c.base) + "-p" + std::to_string(c.pos) + "-w" + std::to_string(c.width) + "-" + c.value + ".txt";
      std::ofstream f(path);
      f << "#! id C07\n#! kind huge\n# " << why << "\n" << describe(c);
      std::cout << "HUGE-FAIL " << path << " : " << why << "\n";
    }
  };
  uint64_t k = 0;
  for (size_t b = 0; b < ob.size(); ++b)
    for (size_t pos = 0; pos < ob[b].size(); ++pos) {
      if ((k++ % (uint64_t)stride) != 0) continue;
      int mt = (b == 0 ? 1 : 0) | ((pos & 1) ? 4 : 0);
      for (uint64_t v : HUGE64) run(Case{true, (int)b, mt, pos, 8, std::to_string(v)});
      for (uint32_t v : HUGE32) run(Case{true, (int)b, mt, pos, 4, std::to_string(v)});
    }
  for (int b = 0; b < 2; ++b) {
    size_t nt = n_ascii_tokens(b);
    for (size_t t = 0; t < nt; ++t)
      for (const char *v : HUGETXT) run(Case{false, b, (b == 0 ? (int)(t % 2) : 0) | ((t & 2) ? 4 : 0), t, 0, v});
  }
  std::ofstream f(out);
  f << "{\"huge_value_cases\": " << cases << ", \"huge_value_failures\": " << nfail << ", \"classes\": {";
  bool first = true;
  for (auto &kv : classes) { f << (first ? "" : ", ") << "\"huge:" << kv.first << "\": " << kv.second; first = false; }
  f << "}}\n";
  return nfail ? 1 : 0;
}
