#include "ascii_shim.hh"
#include <OpenVolumeMesh/FileManager/FileManager.hh>
#include <sstream>
namespace ascii_shim {
bool read_poly(const std::string &data, bool topo_check, bool bottom_up, OpenVolumeMesh::GeometricPolyhedralMeshV3d &m) {
  std::istringstream ss(data);
  OpenVolumeMesh::IO::FileManager fm;
  fm.setVerbosityLevel(0);
  return fm.readStream(ss, m, topo_check, bottom_up);
}
bool write_poly(const OpenVolumeMesh::GeometricPolyhedralMeshV3d &m, std::string &out) {
  std::ostringstream ss;
  OpenVolumeMesh::IO::FileManager fm;
  fm.setVerbosityLevel(0);
  fm.writeStream(ss, m);
  out = ss.str();
  return ss.good();
}
bool is_tet_file(const std::string &path) { OpenVolumeMesh::IO::FileManager fm; fm.setVerbosityLevel(0); return fm.isTetrahedralMesh(path); }
bool is_hex_file(const std::string &path) { OpenVolumeMesh::IO::FileManager fm; fm.setVerbosityLevel(0); return fm.isHexahedralMesh(path); }
bool write_poly_file(const OpenVolumeMesh::GeometricPolyhedralMeshV3d &m, const std::string &path) { OpenVolumeMesh::IO::FileManager fm; fm.setVerbosityLevel(0); return fm.writeFile(path, m); }
bool read_poly_file(const std::string &path, bool topo_check, bool bottom_up, OpenVolumeMesh::GeometricPolyhedralMeshV3d &m) { OpenVolumeMesh::IO::FileManager fm; fm.setVerbosityLevel(0); return fm.readFile(path, m, topo_check, bottom_up); }
}  // namespace ascii_shim
