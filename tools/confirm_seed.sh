#!/bin/bash
# usage: confirm_seed.sh <worktree> <i>   -- re-verifies a sub-agent's seeded change in its scratch worktree
# prints: TESTS=<n failed> DEMO_WITH=<rc> DEMO_WITHOUT=<rc>
WT=$1; I=$2; S=$WT/_seed
cd $WT || exit 2
git checkout -q -- . ; git apply $S/patch$I.diff || { echo "APPLY-FAILED"; exit 2; }
cmake --build _build -j16 >/dev/null 2>&1 || { echo "BUILD-FAILED"; git checkout -q -- .; exit 2; }
FAILED=$(ctest --test-dir _build -j8 --timeout 900 2>/dev/null | grep -E "^\s+[0-9]+ - " | grep -v "SaveFile" | wc -l)
g++ -std=c++17 -I$WT/src -I$WT/_build/src $S/demo$I.cc $WT/_build/Build/lib/libOpenVolumeMesh.a -o /tmp/demo_with_$$ 2>/dev/null
timeout 120 /tmp/demo_with_$$ >/dev/null 2>&1; RW=$?
git checkout -q -- .
cmake --build _build -j16 >/dev/null 2>&1
g++ -std=c++17 -I$WT/src -I$WT/_build/src $S/demo$I.cc $WT/_build/Build/lib/libOpenVolumeMesh.a -o /tmp/demo_without_$$ 2>/dev/null
timeout 120 /tmp/demo_without_$$ >/dev/null 2>&1; RO=$?
rm -f /tmp/demo_with_$$ /tmp/demo_without_$$
echo "TESTS_FAILED_BEYOND_KNOWN=$FAILED DEMO_WITH=$RW DEMO_WITHOUT=$RO"
