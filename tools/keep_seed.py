#!/usr/bin/env python3
"""usage: keep_seed.py <worktree> <i> <name> <confirm-line> <caught-by-summary>"""
import json, os, shutil, sys
wt, i, name, confirm, caught = sys.argv[1:6]
d = os.path.join('/verif/seeded', name)
os.makedirs(d, exist_ok=True)
shutil.copy(os.path.join(wt, '_seed', 'patch%s.diff' % i), os.path.join(d, 'patch.diff'))
shutil.copy(os.path.join(wt, '_seed', 'demo%s.cc' % i), os.path.join(d, 'demo.cc'))
meta = json.load(open(os.path.join(wt, '_seed', 'meta%s.json' % i)))
meta['confirmed_by_main_session'] = confirm
meta['ran'] = 'tools/confirm_seed.sh (apply, build, ctest, demo with / without) then tools/try_seed.py (git -C /repo apply, ./check <ids> --tier quick, git checkout)'
meta['checks_result'] = caught
json.dump(meta, open(os.path.join(d, 'meta.json'), 'w'), indent=1)
print('kept', d)
