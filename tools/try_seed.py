#!/usr/bin/env python3
"""usage: try_seed.py <patch.diff> <ID> [<ID> ...]
Applies a seeded change to /repo, runs the quick checks of the given properties, reverts, and reports which
checks raised VIOLATION. New replay files are moved to /verif/work/seedruns/<patchname>/."""
import glob, os, shutil, subprocess, sys, time
patch = os.path.abspath(sys.argv[1]); ids = sys.argv[2:]
V = '/verif'
st = subprocess.run(['git', '-C', '/repo', 'status', '--porcelain', '--untracked-files=no'], capture_output=True, text=True).stdout.strip()
if st:
    sys.exit('refusing: /repo has local modifications:\n' + st)
before = set(glob.glob(V + '/replays/*/*'))
r = subprocess.run(['git', '-C', '/repo', 'apply', patch])
if r.returncode != 0:
    sys.exit('patch does not apply')
res = {}
try:
    for pid in ids:
        t0 = time.time()
        env = dict(os.environ)
        p = subprocess.run([V + '/check', pid, '--tier', 'quick'], capture_output=True, text=True, env=env, cwd=V)
        viol = [l for l in p.stdout.splitlines() if l.startswith('VIOLATION')]
        detail = [l for l in p.stdout.splitlines() if l.startswith('  ')][:2]
        res[pid] = (p.returncode, len(viol), detail, time.time() - t0, p.stdout[-400:] if p.returncode not in (0, 1) else '')
finally:
    subprocess.run(['git', '-C', '/repo', 'checkout', '--', '.'])
    subprocess.run(['git', '-C', V, 'checkout', '--', 'evidence'])  # evidence of a seeded tree is not kept
new = set(glob.glob(V + '/replays/*/*')) - before
dst = os.path.join(V, 'work', 'seedruns', os.path.basename(os.path.dirname(patch)) + '_' + os.path.basename(patch))
os.makedirs(dst, exist_ok=True)
for f in new:
    shutil.move(f, os.path.join(dst, os.path.basename(os.path.dirname(f)) + '_' + os.path.basename(f)))
for pid, (rc, nv, detail, dt, tail) in res.items():
    print('%s: rc=%d violations=%d (%.0fs) %s %s' % (pid, rc, nv, dt, ' | '.join(d.strip()[:160] for d in detail), tail))
