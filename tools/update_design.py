#!/usr/bin/env python3
"""Regenerates section 7 (as built) of /verif/DESIGN.md from tools/design_as_built.md.in, known_findings.json and seeded/*/meta.json."""
import glob, json, os
V = os.path.dirname(os.path.dirname(os.path.abspath(__file__)))
rows = []
for d in sorted(glob.glob(V + '/seeded/*')):
    m = json.load(open(d + '/meta.json'))
    rows.append("| `%s` | %s | %s |" % (os.path.basename(d), m.get('summary', '').split('. ')[0][:230].replace('|', '/').replace('\n', ' '),
                                       m.get('checks_result', '').replace('|', '/').replace('\n', ' ')))
k = json.load(open(V + '/known_findings.json'))
frows = []
for f in k['findings']:
    if f['status'] == 'fixed':
        frows.append("| %s | `%s` | %s |" % (f['property'], f['commit'], f['line'].split(' ', 3)[3].replace('|', '/')))
sec = open(V + '/tools/design_as_built.md.in').read().replace('{FIXTABLE}', "\n".join(frows)).replace('{SEEDTABLE}', "\n".join(rows))
s = open(V + '/DESIGN.md').read()
marker = "\n---------------------------------------------------------------------------\n\n## 7. As built"
if marker in s:
    s = s[:s.index(marker)]
open(V + '/DESIGN.md', 'w').write(s.rstrip('\n') + '\n' + sec)
print("DESIGN.md section 7: %d fixes, %d seeded changes" % (len(frows), len(rows)))
